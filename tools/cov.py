#!/usr/bin/env python3
"""Line coverage of the library under the drivers: VERIF_COV=/tmp/cov <run checks>; tools/cov.py /tmp/cov
prints, per file, executable lines never executed (grouped into ranges with the enclosing def)."""
import ast
import glob
import json
import sys

d = sys.argv[1]
seen = {}
for f in glob.glob(d + "/*.json"):
    for fn, ln in json.load(open(f)):
        seen.setdefault(fn, set()).add(ln)
tot_e = tot_m = 0
for fn in sorted(glob.glob("/tmp/wtx/canopen/**/*.py", recursive=True)):
    src = open(fn).read()
    tree = ast.parse(src)
    exe = set()
    owner = {}
    for node in ast.walk(tree):
        if isinstance(node, (ast.FunctionDef, ast.AsyncFunctionDef)):
            for sub in ast.walk(node):
                if isinstance(sub, ast.stmt) and not isinstance(sub, (ast.FunctionDef, ast.ClassDef)):
                    if isinstance(sub, ast.Expr) and isinstance(getattr(sub, "value", None), ast.Constant) and isinstance(sub.value.value, str):
                        continue
                    exe.add(sub.lineno)
                    owner.setdefault(sub.lineno, node.name)
    hit = seen.get(fn, set())
    miss = sorted(exe - hit)
    tot_e += len(exe)
    tot_m += len(miss)
    print(f"== {fn[9:]}: {len(exe) - len(miss)}/{len(exe)} statements in functions executed")
    byfn = {}
    for ln in miss:
        byfn.setdefault(owner[ln], []).append(ln)
    for name, lns in byfn.items():
        print(f"     {name}: {lns[:25]}{' …' if len(lns) > 25 else ''}")
print(f"TOTAL {tot_e - tot_m}/{tot_e}")
