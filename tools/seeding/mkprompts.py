#!/usr/bin/env python3
"""Fill PROMPT_TEMPLATE.txt for every property: mkprompts.py <WT> <OUT> <promptdir> [TWO|THREE]"""
import glob, json, os, re, sys
WT, OUT, PD = sys.argv[1:4]
N = sys.argv[4] if len(sys.argv) > 4 else "THREE"
here = os.path.dirname(os.path.abspath(__file__))
tpl = open(f"{here}/PROMPT_TEMPLATE.txt").read()
if N == "TWO":
    tpl = tpl.replace("produce THREE different", "produce TWO different").replace("The three changes must affect three different", "The two changes must affect two different") \
             .replace("for each change k in (1, 2, 3)", "for each change k in (1, 2)").replace("For each change k in (1, 2, 3)", "For each change k in (1, 2)").replace("summary of the three changes", "summary of the two changes")
if N == "ONE":
    tpl = tpl.replace("produce THREE different, realistic source changes (\"seeded bugs\")", "produce ONE realistic source change (a \"seeded bug\")") \
             .replace("that each BREAK this property", "that BREAKS this property").replace("The three changes must affect three different clauses / code paths of the property; look", "Look") \
             .replace("for each change k in (1, 2, 3)", "for the change (k = 1)").replace("For each change k in (1, 2, 3)", "For the change (k = 1)").replace("summary of the three changes", "summary of the change")
os.makedirs(PD, exist_ok=True)
for line in open("/verif/properties.jsonl"):
    p = json.loads(line)
    taken = []
    for d in sorted(glob.glob(f"/verif/seeded/{p['id']}-*")):
        m = json.load(open(f"{d}/meta.json"))
        k = d.rsplit("-", 1)[1]
        notes = m.get("notes_excerpt", "")
        mm = re.search(rf"## Change {k}\s*\n+(.*?)(?=\n## Change|\Z)", notes, re.S)
        txt = (mm.group(1) if mm else m.get("needs", "") or notes).strip().replace("\n", " ")
        taken.append("    - " + txt[:260])
    t = tpl.replace("<WT>", WT).replace("<OUT>", OUT).replace("<ID>", p["id"]).replace("<title>", p["title"]) \
           .replace("<statement>", p["statement"]).replace("<quantifier.text>", p["quantifier"]["text"]) \
           .replace("    <one line per kept seeded change of this property, from seeded/*/meta.json>", "\n".join(taken))
    open(f"{PD}/{p['id']}.txt", "w").write(t)
    os.makedirs(f"{OUT}/{p['id']}", exist_ok=True)
