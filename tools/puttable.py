#!/usr/bin/env python3
"""Replace the table of DESIGN §16.5 by the current output of tools/seedtable.py."""
import subprocess
p = "/verif/DESIGN.md"
lines = open(p).read().split("\n")
a = next(i for i, l in enumerate(lines) if l.startswith("| seeded change | detected by"))
b = a
while b < len(lines) and lines[b].startswith("|"):
    b += 1
tab = subprocess.run(["/venv/bin/python", "/verif/tools/seedtable.py"], text=True, stdout=subprocess.PIPE, check=True).stdout.rstrip("\n").split("\n")
open(p, "w").write("\n".join(lines[:a] + tab + lines[b:]))
print(f"table: {b - a} -> {len(tab)} lines")
