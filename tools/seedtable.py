#!/usr/bin/env python3
"""Markdown table of the kept seeded changes and what detects them (from seeded/*/meta.json;
the 'recheck' block written by tools/reeval.py wins over the original evaluation)."""
import glob
import json
import os
import re

rows = []
for d in sorted(glob.glob("/verif/seeded/*/")):
    sid = os.path.basename(d.rstrip("/"))
    m = json.load(open(d + "meta.json"))
    rc = m.get("recheck") or {}
    if m.get("status", "").startswith("defused") or rc.get("applies") is False and not rc.get("detected_by"):
        det, clause = "— (" + (m.get("status") or "no longer applies; see meta.json") + ")", ""
    else:
        by = rc.get("detected_by") if rc else m.get("detected_by")
        det = ", ".join(by or []) or "**missed**"
        src = (rc.get("detection") or m.get("detection") or {})
        clause = ""
        for n in by or []:
            for s in src.get(n, {}).get("sigs", []):
                mm = re.search(r'"clause": "([^"]*)"', s)
                if mm:
                    clause = mm.group(1)[:110]
                    break
            if clause:
                break
    notes = m.get("notes_excerpt", "")
    k = sid.split("-")[-1]
    what = ""
    for part in re.split(r"(?m)^## ", notes)[1:]:
        if part.lower().startswith(f"change {k}"):
            lines = part.strip().split("\n")
            head = re.sub(r"^change \d+\s*[-:(]*\s*", "", lines[0], flags=re.I)
            head = re.sub(r"`?patch\d\.diff`?\s*[/,]?\s*`?demo\d\.py`?\)?\s*[-:]*\s*", "", head).strip(" -:()")
            body = " ".join(l.strip() for l in lines[1:] if l.strip())
            what = (head or body)[:170]
            if len(head) < 25:
                what = (head + " " + body)[:170]
            break
    if not what:
        what = (m.get("needs") or "")[:170]
    rows.append(f"| {sid} | {det} | {clause} | {what.replace('|', '/')} |")
print("| seeded change | detected by (quick tier) | first failing clause | what was changed (author's notes) |")
print("|---|---|---|---|")
print("\n".join(rows))
