#!/usr/bin/env python3
"""Confirm a seeded change (suite passes, demo fails with / passes without) in a scratch worktree,
then apply it to /repo, run the given checks, undo it, and record the outcome under seeded/."""
import json
import os
import shutil
import subprocess
import sys
import time

P, k = sys.argv[1], sys.argv[2]
checks = sys.argv[3:] or [P]
MUT = os.environ.get("MUTDIR", "/tmp/mut")
TAG = os.environ.get("MUTTAG", "")
src = f"{MUT}/{P}"
patch, demo0 = f"{src}/patch{k}.diff", f"{src}/demo{k}.py"
wt = f"/tmp/wt/eval_{P}_{k}"
# some demonstrations assert that canopen is imported from their author's worktree: retarget
demo = f"{MUT}/{P}/demo{k}_eval.py"
import re
open(demo, "w").write(re.sub(rf"/tmp/wt\d*/{P}/?", lambda m: wt + ("/" if m.group(0).endswith("/") else ""), open(demo0).read()))
sh = lambda c, **kw: subprocess.run(c, shell=True, text=True, stdout=subprocess.PIPE, stderr=subprocess.STDOUT, **kw)  # noqa
sh(f"git -C /repo worktree remove --force {wt}")
assert sh(f"git -C /repo worktree add -q {wt} HEAD").returncode == 0
env = dict(os.environ, PYTHONPATH=wt)
res = {"property": P, "k": k}
try:
    r = sh(f"cd {wt} && /venv/bin/python {demo}", env=env, timeout=300)
    res["demo_clean_rc"] = r.returncode
    a = sh(f"git -C {wt} apply {patch}")
    res["applies"] = a.returncode == 0
    if a.returncode:
        print("patch does not apply:", a.stdout[-500:])
    else:
        for attempt in range(3):        # the suite has a few timing tests that fail now and then under load
            t = sh(f"cd {wt} && /venv/bin/python -m pytest -q -p no:cacheprovider 2>&1 | tail -1", env=env, timeout=900)
            res["suite"] = t.stdout.strip()
            if "164 passed" in res["suite"]:
                break
        r = sh(f"cd {wt} && /venv/bin/python {demo}", env=env, timeout=300)
        res["demo_patched_rc"] = r.returncode
        res["demo_patched_tail"] = r.stdout[-300:]
finally:
    sh(f"git -C /repo worktree remove --force {wt}")
ok = res.get("applies") and res.get("demo_clean_rc") == 0 and res.get("demo_patched_rc", 0) != 0 and "164 passed" in res.get("suite", "")
res["confirmed"] = bool(ok)
print(json.dumps({k2: v for k2, v in res.items() if k2 != "demo_patched_tail"}))
# EVAL_TARGET: a scratch checkout at /repo's HEAD to apply the change to instead of /repo itself
# (development only: lets the evaluation run while something else is using /repo)
TARGET = os.environ.get("EVAL_TARGET", "/repo")
cenv = dict(os.environ)
if TARGET != "/repo":
    cenv.update(VERIF_DEV_REPO=TARGET, PYTHONPATH=TARGET)
if ok:
    assert sh(f"git -C {TARGET} status --porcelain -- canopen").stdout.strip() == "", "repo dirty"
    assert sh(f"git -C {TARGET} apply {patch}").returncode == 0
    try:
        det = {}
        for c in checks:
            t0 = time.time()
            r = sh(f"cd /verif && /venv/bin/python -m checks.{c.lower()} --tier quick", timeout=3000, env=cenv)
            viol = [l for l in r.stdout.splitlines() if l.startswith("VIOLATION")]
            sigs = [l.strip()[:300] for l in r.stdout.splitlines() if "signature=" in l][:4]
            det[c] = {"rc": r.returncode, "violations": len(viol), "sigs": sigs, "wall_s": round(time.time() - t0, 1),
                      "tail": r.stdout[-300:] if r.returncode not in (0, 1) else ""}
            print(c, "rc", r.returncode, "violations", len(viol), sigs[:2])
        res["detection"] = det
    finally:
        sh(f"git -C {TARGET} checkout -- .")
        assert sh(f"git -C {TARGET} status --porcelain -- canopen").stdout.strip() == ""
    d = f"/verif/seeded/{P}-{TAG}{k}"
    os.makedirs(d, exist_ok=True)
    shutil.copy(patch, f"{d}/patch.diff")
    shutil.copy(demo0, f"{d}/demo.py")
    notes = open(f"{src}/notes.md").read() if os.path.exists(f"{src}/notes.md") else ""
    json.dump({"breaks_property": P, "needs": "see notes", "notes_excerpt": notes[:3000],
               "confirmed": {"suite": res["suite"], "demo_clean_rc": res["demo_clean_rc"], "demo_patched_rc": res["demo_patched_rc"]},
               "ran": [f"checks.{c.lower()} --tier quick" for c in checks], "detection": res["detection"],
               "detected_by": [c for c, x in res["detection"].items() if x["rc"] == 1]},
              open(f"{d}/meta.json", "w"), indent=1)
