#!/usr/bin/env python3
"""Re-run the quick checks against every kept seeded change on the current /repo HEAD (apply, run,
undo) and record the outcome in seeded/<id>/meta.json under "recheck".  Never run while anything
else uses /repo.  Usage: tools/reeval.py [id-prefix ...]
REEVAL_TARGET=<scratch checkout at /repo's HEAD> applies the changes there instead of /repo (the
checks then run with VERIF_DEV_REPO); REEVAL_SHARD=i/n takes every n-th change, REEVAL_JOBS=j workers.
NOTE: an unsharded run ends with `git checkout -- evidence` (evidence written while a change was applied
is not kept): run the quick checks on the clean tree afterwards to refresh the evidence files."""
import glob
import json
import os
import subprocess
import sys
import time

sh = lambda c, **kw: subprocess.run(c, shell=True, text=True, stdout=subprocess.PIPE, stderr=subprocess.STDOUT, **kw)  # noqa
head = sh("git -C /repo log --format=%h -1").stdout.strip()
sel = sys.argv[1:]
rows = []
TARGET = os.environ.get("REEVAL_TARGET", "/repo")
cenv = dict(os.environ)
if TARGET != "/repo":
    cenv.update(VERIF_DEV_REPO=TARGET, PYTHONPATH=TARGET)
shard, nshard = (int(x) for x in os.environ.get("REEVAL_SHARD", "0/1").split("/"))
jobs = os.environ.get("REEVAL_JOBS")
for num, d in enumerate(sorted(glob.glob("/verif/seeded/*/"))):
    sid = os.path.basename(d.rstrip("/"))
    if sel and not any(sid.startswith(s) for s in sel):
        continue
    if num % nshard != shard:
        continue
    mp = d + "meta.json"
    meta = json.load(open(mp))
    assert sh(f"git -C {TARGET} status --porcelain -- canopen").stdout.strip() == "", "repo dirty"
    chk = sh(f"git -C {TARGET} apply --check {d}patch.diff")
    rec = {"head": head, "applies": chk.returncode == 0}
    if rec["applies"]:
        assert sh(f"git -C {TARGET} apply {d}patch.diff").returncode == 0
        try:
            det = {}
            for c in meta.get("ran") or [f"checks.{sid[:3].lower()} --tier quick"]:
                t0 = time.time()
                r = sh(f"cd /verif && /venv/bin/python -m {c}" + (f" --jobs {jobs}" if jobs else ""), timeout=3000, env=cenv)
                name = c.split()[0].split(".")[-1].upper()
                det[name] = {"rc": r.returncode, "wall_s": round(time.time() - t0, 1),
                             "sigs": [l.strip()[:200] for l in r.stdout.splitlines() if "signature=" in l][:3]}
            rec["detection"] = det
            rec["detected_by"] = [n for n, x in det.items() if x["rc"] == 1]
            rec["machinery_failure"] = [n for n, x in det.items() if x["rc"] not in (0, 1)]
        finally:
            sh(f"git -C {TARGET} checkout -- .")
    meta["recheck"] = rec
    json.dump(meta, open(mp, "w"), indent=1)
    rows.append((sid, rec["applies"], rec.get("detected_by"), rec.get("machinery_failure")))
    print(sid, "applies" if rec["applies"] else "NO-LONGER-APPLIES", rec.get("detected_by"), rec.get("machinery_failure") or "", flush=True)
if nshard == 1:
    sh("cd /verif && git checkout -- evidence")      # evidence written while a change was applied is not kept
