#!/bin/bash
# seed sweep: every quick check with several seeds; prints one line per run, lists alarms at the end
cd /verif
seeds=${1:-"1 2 3 4 5"}
fail=0
for s in $seeds; do
  for p in c01 c02 c03 c04 c05 c06 c07 c08 c09 c10 c11 c12 c13 c14 c15 c16 c17 c18 c19 c20; do
    out=$(VERIF_SEED=$s /venv/bin/python -m checks.$p --tier ${2:-quick} 2>&1); rc=$?
    echo "seed=$s $p rc=$rc $(echo "$out" | tail -1)"
    if [ $rc -ne 0 ]; then fail=1; echo "$out" | grep -A2 "VIOLATION\|MACHINERY" | head -12; fi
  done
done
echo "SWEEP-DONE fail=$fail"
