"""C09 -- saving a PDO configuration follows the safe procedure and reads back identically.

Leg A: MC_PdoCfg (every configuration x prior device state: the safe procedure is accepted write by
write by the strict device and the device then holds the configuration).  Leg B/C: configurations
(COB-IDs over the 11/29-bit range, flags, transmission types 0..255, optional sub-entries present or
absent, mappings of 0..8 objects, RPDO/TPDO, PDO numbers 1..512, devices starting enabled with a
different mapping) applied through the real PdoMap.save() to a strict device; a second fresh node
reads back; every SDO write/read and the resulting attributes judged by TLC (Trace_PdoCfg)."""
import random

from harness import tlc
from harness.common import Verdict, main_wrapper, parse_args
from harness.pool import run_cases

PROP = "C09"
LENS = [8, 16, 32, 8, 16, 1, 4, 7, 24, 64]


def gen_cases(tier, seed):
    rng = random.Random(seed * 11 + 9)
    cases = []
    tts = list(range(256))
    for i in range(300 if tier == "quick" else 6000):
        kind = rng.choice(["rpdo", "tpdo"])
        num = rng.choice([1, 2, 3, 4, 5, 100, 512, rng.randrange(1, 513)])
        present = [s for s in (3, 5, 6) if rng.random() < 0.6]
        cob = rng.choice([rng.randrange(1, 0x800), rng.randrange(0x800, 1 << 29), 0x181, 0x7FF, 0x1FFFFFFF, 0x800])
        tt = tts[i % 256] if rng.random() < 0.9 else -1
        nmap, total, m = rng.randrange(0, 9), 0, []
        for k in range(nmap):
            n = rng.choice(LENS)
            if total + n > 64:
                break
            total += n
            if m and rng.random() < 0.2:
                # the same object once more (another part of it, possibly with another bit length)
                m.append([m[-1][0] & ~0x100, m[-1][1], n])
            else:
                m.append([0x2000 + k if rng.random() < 0.7 else 0x6000 + k, 0 if rng.random() < 0.7 else k + 1, n])
        # a record member and a plain variable must not share an index
        for e in m:
            if e[1] != 0:
                e[0] |= 0x100
        cfg = {"cob": cob, "enabled": rng.random() < 0.6, "rtr": rng.random() < 0.5, "tt": tt,
               "inhibit": rng.randrange(65536) if 3 in present and rng.random() < 0.6 else -1,
               "evt": rng.randrange(65536) if 5 in present and rng.random() < 0.6 else -1,
               "sync": rng.randrange(256) if 6 in present and rng.random() < 0.5 else -1, "map": m}
        prior_n = rng.choice([0, 1, 2, 8])
        dev0 = {"valid": rng.random() < 0.6, "rtr": rng.random() < 0.5, "cob": rng.choice([0x201, 0x181, cob, rng.randrange(1, 1 << 29)]),
                "tt": rng.randrange(256), "count": prior_n,
                "ents": [[0x2200 + k, 0, 8] for k in range(prior_n)]}
        cases.append({"kind": kind, "num": num, "present": present, "cfg": cfg, "dev0": dev0, "nid": rng.choice([1, 5, 127]),
                      "seed": rng.randrange(1 << 30),
                      # how each object is named when it is mapped: by numbers, 'Record.Member', or two names
                      "spell": [rng.choice(["num", "num", "dotted", "names"]) for _ in m],
                      "resave": i % 4 == 3})
    return cases


def main():
    args = parse_args(PROP)
    v = Verdict(PROP, args)
    mc = tlc.run_tlc("MC_PdoCfg", "MC_PdoCfg.cfg", workers=args.jobs, timeout=1200)
    if not mc.ok:
        v.report({"clause": "model:" + str(mc.violated)}, f"MC_PdoCfg violates {mc.violated}", {"tlc_tail": mc.stdout[-3000:]})
    replay_load = None
    if args.replay:
        import json
        cases = [json.load(open(args.replay))["case"]]
        if cases[0].get("loadcfg"):
            replay_load, cases = cases, []
    else:
        cases = gen_cases(args.tier, args.seed)
    results = run_cases("harness.drv_pdocfg:run_case", cases, jobs=args.jobs, timeout=120)
    if any(r.get("hang") for r in results):
        raise RuntimeError("driver hang")
    val = tlc.validate_traces("Trace_PdoCfg", results, cfg="Trace.cfg", jobs=args.jobs)
    for rej in val.rejects:
        ev = rej.event or {}
        c = cases[rej.index]
        sig = {"clause": rej.why, "ev": ev.get("e"), "k": ev.get("k"), "sub": ev.get("sub"),
               "prior_valid": c["dev0"]["valid"], "prior_count0": c["dev0"]["count"] == 0}
        v.report(sig, f"{rej.why} [cfg={c['cfg']} prior={c['dev0']} present={c['present']}] event={str(ev)[:300]}",
                 {"case": c, "step": rej.step, "why": rej.why, "spec_state": rej.state[:1500], "event": ev})
    # the same configuration applied through RemoteNode.load_configuration(): PDO objects first (by
    # read(from_od=True) + save()), never again after the application objects have been started
    lrng = random.Random(args.seed * 7 + 99)
    lcases = replay_load or []
    if not args.replay:
        for i in range(90 if args.tier == "quick" else 1200):
            lcases.append({"seed": lrng.randrange(1 << 30), "with_pdo": i % 3 != 2,
                           "reacts": [lrng.choice(["ok", "ok", "ok", "ro", "timeout", "abort"])
                                      for _ in range(lrng.randrange(0, 8))]})
    lres = run_cases("harness.drv_loadcfg:run_case", lcases, jobs=args.jobs, timeout=120)
    lval = tlc.validate_traces("Trace_LoadCfg", lres, cfg="Trace.cfg", jobs=args.jobs) if lcases else None
    for rej in (lval.rejects if lval else []):
        v.report({"clause": "load_configuration: " + rej.why, "ev": (rej.event or {}).get("e")},
                 f"load_configuration: {rej.why} event={str(rej.event)[:300]} spec={rej.state[:200]}",
                 {"case": dict(lcases[rej.index], loadcfg=True), "step": rej.step, "why": rej.why, "event": rej.event})
    cov = {"load_configuration_traces": lval.traces if lval else 0, "states": mc.distinct, "transitions": mc.generated, "traces_validated_against_impl": val.traces,
           "samples": [results[0]["ev"][:6]], "trace_events": val.events, "rejected": len(val.rejects),
           "transmission_types_covered": len({c["cfg"]["tt"] for c in cases})}
    return v.finish("model_checking", cov, [
        "the strict device model (Python) is untrusted: each verdict is compared with DevWrite of the specification",
        "bit 29 (frame format) of the COB-ID entry is not part of the property and is ignored",
        "optional timers are configured only when the sub-entry exists in the dictionary"])


if __name__ == "__main__":
    main_wrapper(main)
