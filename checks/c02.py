"""C02 -- SDO server serves and stores object values exactly, in conformant CiA 301 frames.

Leg A: MC_SdoCore (shared with C01/C06).  Leg C: scripted requests (valid transfers, restarts,
garbage) against real LocalNodes over random object dictionaries; every response, every change of
data_store and every write-callback notification is judged by TLC (Trace_SdoServer / SrvJudge)."""
import random

from checks import sdo_srv
from harness import tlc
from harness.common import Verdict, main_wrapper, parse_args

PROP = "C02"


def main():
    args = parse_args(PROP)
    v = Verdict(PROP, args)
    mc = tlc.run_tlc("MC_SdoCore", "MC_SdoCore.cfg" if args.tier == "quick" else
                     "MC_SdoCore_thorough.cfg", workers=args.jobs, timeout=3000)
    if not mc.ok:
        v.report({"clause": "model:" + str(mc.violated)}, f"MC_SdoCore violates {mc.violated}",
                 {"tlc_tail": mc.stdout[-3000:]})
    rng = random.Random(args.seed * 104729 + 2)
    if args.replay:
        import json
        cases = [json.load(open(args.replay))["case"]]
    else:
        cases = sdo_srv.length_sweep_cases(rng, 64)
        cases += [sdo_srv.gen_case(rng, "serve") for _ in range(500 if args.tier == "quick" else 6000)]
        cases += sdo_srv.long_cases(rng, [888, 889, 890, 2000, 10000] if args.tier == "quick" else
                                    [7 * k + d for k in range(100, 1430, 133) for d in (-1, 0, 1)] + [10000])
    traces, val = sdo_srv.run_and_validate(cases, args.jobs)
    for rej in val.rejects:
        sig = sdo_srv.classify(traces[rej.index], rej)
        v.report(sig, f"{rej.why}: request/response {str(rej.event)[:400]}",
                 {"case": cases[rej.index], "step": rej.step, "why": rej.why,
                  "spec_state": rej.state, "trace_tail": traces[rej.index]["ev"][max(0, rej.step - 3):rej.step + 1]})
    nreq = sum(len(t["ev"]) for t in traces)
    cov = {"states": mc.distinct, "transitions": mc.generated,
           "traces_validated_against_impl": val.traces,
           "samples": [{"trace_prefix": traces[-min(7, len(traces))]["ev"][:5], "od": traces[-min(7, len(traces))]["od"][:3]}],
           "requests_judged": nreq, "trace_states": val.states, "rejected": len(val.rejects),
           "value_lengths": "0..64 exhaustively for every data-type class and value source, to 10^4 sampled"}
    return v.finish("model_checking", cov, [
        "requests are inputs (any frame sequence); responses judged by SdoCore.SrvJudge in TLC",
        "header value bytes come from the harness' independent encoder (harness/enc.py), which the C04 check compares with the TLA+ Codec",
        "undefined members of arrays and sub-index != 0 of VAR objects: see DESIGN.md"])


if __name__ == "__main__":
    main_wrapper(main)
