"""C03 -- typed values survive the client -> bus -> server -> client round trip.

Leg A: MC_SdoCore (protocol, shared) and MC_Codec (reference codec algebra).
Leg C: real RemoteNode.sdo[...].raw assignments / reads against real LocalNodes for every data
type, inline, through a dispatcher thread with seeded delays, and over python-can's threaded virtual
bus with 1..8 client threads and unrelated traffic; every frame and every typed value is judged by
TLC (Trace_Bus = SdoCore per node + Codec)."""
import random
import struct

from checks.c04 import int_values, real_values
from harness import enc, tlc
from harness.common import Verdict, main_wrapper, parse_args
from harness.drv_bus import ARR_IDX, DOT_IDX, REC_IDX, TYPES, var_idx
from harness.pool import run_cases

PROP = "C03"


def jval(dt, val):
    if dt in enc.INT:
        return {"int": val}
    if dt == enc.BOOLEAN:
        return {"bool": val}
    if dt in (enc.REAL32, enc.REAL64):
        return {"hex": val.hex()}
    if dt in (enc.VSTR, enc.USTR):
        return {"str": val}
    return {"bytes": list(val)}


def values_for(rng, dt, tier, all16):
    if dt in enc.INT:
        lo, hi = enc.int_range(dt)
        size = enc.INT[dt][0]
        if size == 1 or (size == 2 and all16):
            return list(range(lo, hi + 1))
        return [x for x in int_values(rng, dt, "quick") if lo <= x <= hi][:: (1 if tier == "thorough" else 3)]
    if dt == enc.BOOLEAN:
        return [True, False]
    if dt in (enc.REAL32, enc.REAL64):
        vals = real_values(rng, dt, "quick")
        # both signed zeros, infinities and the other hand-picked values always; the random rest sampled
        return vals[:9] + vals[9:: (1 if tier == "thorough" else 4)]
    lens = list(range(0, 20)) + [rng.randrange(20, 201) for _ in range(6)] + [200]
    if tier == "thorough":
        lens = list(range(0, 201))
    out = []
    for n in lens:
        if dt == enc.VSTR:
            s = "".join(chr(rng.randrange(1, 128)) for _ in range(n))
            out.append(s[:-1] + "z" if s.endswith("\x00") else s)
        elif dt == enc.USTR:
            s = ""
            while len(s) < n // 2:
                c = rng.randrange(1, 0x10000)
                if not 0xD800 <= c <= 0xDFFF:
                    s += chr(c)
            out.append(s)
        else:
            out.append(bytes(rng.randrange(256) for _ in range(n)))
    return out


def triple(rng, dt, val):
    """set / local read / get of one value through a randomly chosen spelling and location"""
    where = rng.choice(["var", "var", "rec"])
    if where == "rec":
        idx, sub = REC_IDX, TYPES.index(dt) + 1
        how = rng.choice(["index", "name", "dotted"])
    else:
        idx, sub = var_idx(dt), 0
        how = rng.choice(["index", "name"])
    base = {"idx": idx, "sub": sub, "t": dt, "how": how}
    return [dict(base, op="set", v=jval(dt, val)), dict(base, op="local"),
            dict(base, op="get", how=rng.choice(["index", "name"] + (["dotted"] if where == "rec" else [])))]


def gen_cases(tier, seed):
    rng = random.Random(seed * 15485863 + 3)
    cases = []
    # (i) inline: every type, boundary / all values
    pool = []
    for dt in TYPES:
        for val in values_for(rng, dt, tier, all16=(tier == "thorough")):
            pool.append((dt, val))
    rng.shuffle(pool)
    per = 60
    for i in range(0, len(pool), per):
        ops = []
        for dt, val in pool[i:i + per]:
            ops += triple(rng, dt, val)
        cases.append({"mode": "inline", "nodes": [3], "ops": {"3": ops}, "noise": i % 2 == 0,
                      "seed": rng.randrange(1 << 30)})
    # array members by index / name
    ops = []
    for sub in (1, 2, 3):
        for val in (0, 1, 0xFFFF, 0x1234):
            base = {"idx": ARR_IDX, "sub": sub, "t": 0x6}
            ops += [dict(base, op="set", how=rng.choice(["index", "name", "dotted"]), v={"int": val}),
                    dict(base, op="local", how="index"),
                    dict(base, op="get", how=rng.choice(["index", "name", "dotted"]))]
    # a variable whose name contains a dot, by name and by index
    for val in (0, 1, 0xBEEF):
        base = {"idx": DOT_IDX, "sub": 0, "t": 0x6}
        ops += [dict(base, op="set", how="name", v={"int": val}), dict(base, op="local", how="index"),
                dict(base, op="get", how=rng.choice(["name", "index"]))]
    # UNICODE strings that begin / end with byte-order-mark code points
    for sval in ("\ufeffabc", "\ufffeab", "ab\ufeff", "\ufeff", "\ufffe\ufeffx"):
        ops += triple(rng, enc.USTR, sval)
    # VISIBLE_STRING values that end in blanks / consist of blanks only
    for sval in ("> ", "a  ", " ", "  x  ", "tab\t"):
        ops += triple(rng, enc.VSTR, sval)
    # both signed zeros (and other pairs that compare equal: 1 / 1.0 / True) one after the other
    for dt in (enc.REAL32, enc.REAL64):
        for val in (0.0, -0.0, 0.0, -0.0, 1.0, -1.0, -0.0):
            ops += triple(rng, dt, val)
    cases.append({"mode": "inline", "nodes": [9], "ops": {"9": ops}, "noise": True, "seed": 1})
    # (ii) dispatcher thread with seeded delays, (iii) python-can virtual bus: 1..8 client threads
    small = [(dt, val) for dt, val in pool if not isinstance(val, (str, bytes)) or len(val) <= 40]
    reps = {"quick": 10, "thorough": 80}[tier]
    for mode in ("deferred", "virtual"):
        for r in range(reps):
            nthreads = rng.choice([1, 2, 3, 4, 8]) if r else 8
            nodes = rng.sample(range(1, 100), nthreads)
            ops = {}
            for n in nodes:
                o = []
                for dt, val in rng.sample(small, 12):
                    o += triple(rng, dt, val)
                # zero-length values: the transfer ends with an empty closing segment whose
                # acknowledgement must be awaited (visible only with deferred delivery)
                for dt, empty in ((enc.VSTR, ""), (enc.OSTR, b""), (enc.USTR, ""), (enc.DOMAIN, b"")):
                    if rng.random() < 0.6:
                        o += triple(rng, dt, empty)
                # a few long strings so that segmented transfers of different nodes interleave
                for dt in (enc.VSTR, enc.DOMAIN):
                    big = [(d, x) for d, x in pool if d == dt and len(x) > 20]
                    if big:
                        o += triple(rng, *rng.choice(big))
                ops[str(n)] = o
            cases.append({"mode": mode, "nodes": nodes, "ops": ops, "noise": r % 2 == 0,
                          "seed": rng.randrange(1 << 30), "slow_store": r % 3 == 1, "slow_send": r % 2 == 0})
    return cases


def main():
    args = parse_args(PROP)
    v = Verdict(PROP, args)
    mc = tlc.run_tlc("MC_SdoCore", "MC_SdoCore.cfg", workers=args.jobs, timeout=3000)
    mc2 = tlc.run_tlc("MC_Codec", "MC_Codec.cfg", workers=4, timeout=1200)
    for m, name in ((mc, "MC_SdoCore"), (mc2, "MC_Codec")):
        if not m.ok:
            v.report({"clause": "model:" + str(m.violated)}, f"{name} violates {m.violated}",
                     {"tlc_tail": m.stdout[-2000:]})
    if args.replay:
        import json
        cases = [json.load(open(args.replay))["case"]]
    else:
        cases = gen_cases(args.tier, args.seed)
    # threaded cases use real time: run them with few workers so that load cannot cause time-outs
    threaded = [c for c in cases if c["mode"] != "inline"]
    inline = [c for c in cases if c["mode"] == "inline"]
    res_inline = run_cases("harness.drv_bus:run_case", inline, jobs=args.jobs, timeout=120)
    res_thr = run_cases("harness.drv_bus:run_case", threaded, jobs=4, timeout=180)
    # a real-time time-out under machine load says nothing about the library: such cases are run
    # again one at a time (twice at most) before the run is declared a machinery failure
    for attempt in range(2):
        again = [i for i, r in enumerate(res_thr) if r.get("machinery") or r.get("hang")]
        if not again:
            break
        redo = run_cases("harness.drv_bus:run_case", [threaded[i] for i in again], jobs=1, timeout=300)
        for i, r in zip(again, redo):
            res_thr[i] = r
    for r in res_thr:
        # a time-out that persists when the case runs alone is the library's: the trace (which holds
        # the raised error) goes to the specification instead of ending the run with exit 2
        if r.get("machinery") and all(m.startswith("time-out under load") for m in r["machinery"]):
            r["machinery"] = []
    cases = inline + threaded
    results = res_inline + res_thr
    mach = [m for r in results for m in r.get("machinery", [])]
    if any(r.get("hang") for r in results) or mach:
        raise RuntimeError(f"machinery failure in threaded driver: {mach[:3]} / hangs: "
                           f"{sum(1 for r in results if r.get('hang'))}")
    val = tlc.validate_traces("Trace_Bus", results, cfg="Trace.cfg", jobs=args.jobs)
    for rej in val.rejects:
        case = cases[rej.index]
        ev = rej.event or {}
        # find the type of the pending call of that node
        t = None
        for e in reversed(results[rej.index]["ev"][:rej.step + 1]):
            if e.get("node") == ev.get("node") and e["e"] in ("call", "local"):
                t = e.get("t")
                break
        sig = {"clause": rej.why, "type": t, "mode": case["mode"]}
        v.report(sig, f"{rej.why} [mode={case['mode']} type={t}] event={str(ev)[:300]}",
                 {"case": case, "step": rej.step, "why": rej.why, "spec_state": rej.state[:2000],
                  "trace_tail": results[rej.index]["ev"][max(0, rej.step - 5):rej.step + 1]})
    modes = {}
    for c in cases:
        modes[c["mode"]] = modes.get(c["mode"], 0) + 1
    nvals = sum(1 for r in results for e in r["ev"] if e["e"] == "call" and e["op"] == "set")
    cov = {"states": mc.distinct + mc2.distinct, "transitions": mc.generated + mc2.generated,
           "traces_validated_against_impl": val.traces,
           "samples": [results[0]["ev"][:7]], "trace_events": val.events, "typed_values_round_tripped": nvals,
           "cases_by_delivery_mode": modes, "rejected": len(val.rejects),
           "max_client_threads": max(len(c["nodes"]) for c in cases)}
    return v.finish("model_checking", cov, [
        "threaded modes use RESPONSE_TIMEOUT = 15 s of real time; a case that times out is run again alone (twice at most); a time-out that persists is judged by the specification like any other raised error",
        "event order: recorder lock, frames recorded inside bus.send (under Network.send_lock)",
        "REAL32 values are exactly representable; strings have no trailing NUL / surrogates"])


if __name__ == "__main__":
    main_wrapper(main)
