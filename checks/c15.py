"""C15 -- a PDO value set by the producer is the value the consumer reads.

Leg A: MC_PdoBus (two consumer maps, distinct / colliding COB-IDs, transmissions, foreign frames,
reconfigurations: OnlySubscribedMapChanges) and MC_PdoBits.  Leg C: random mappings (TLC-generated
layouts as in C05) and values, several consumer maps, sequences of set / transmit / foreign frame /
reconfigure / remote request / wait steps; reception inline and from a second thread while another
waits; judged by TLC (Trace_PdoBus)."""
import json
import random

from checks.c05 import field_values, hand_layouts
from harness import tlc
from harness.common import Verdict, main_wrapper, parse_args
from harness.pool import run_cases

PROP = "C15"


def gen_case(rng, lay, tier):
    objs = None
    lay = list(lay)
    if lay and rng.random() < 0.3:
        # one object mapped a second time into the same PDO (another slot, same type and length)
        j = rng.randrange(len(lay))
        if sum(n for _, n in lay) + lay[j][1] <= 64 and len(lay) < 8:
            objs = list(range(len(lay))) + [j]
            lay.append(lay[j])
    pcob = rng.choice([0x184, 0x284, 0x7FF, 0x1ABCDE])
    others = [0x185, 0x284, 0x384, 0x204]
    ncons = rng.randrange(1, 4)
    cons = []
    for k in range(ncons):
        cons.append({"cob": pcob if rng.random() < 0.6 else rng.choice(others), "enabled": rng.random() < 0.8,
                     "rtr": rng.random() < 0.6, "ncb": rng.randrange(0, 3),
                     "tt": rng.choice([255, 254, 0, 1, 240, 252, 253, 252])})     # the transmission type has no say in the RTR rule
    ops, ts = [], 100
    nb = (sum(n for _, n in lay) + 7) // 8
    for _ in range(25 if tier == "quick" else 80):
        r = rng.random()
        ts += rng.randrange(1, 1000)
        if r < 0.4:
            i = rng.randrange(1, len(lay) + 1)
            t, n = lay[i - 1]
            vals = [x for x in field_values(rng, t, n, "quick")]
            val = rng.choice(vals[:-2] if len(vals) > 3 else vals)
            ops.append({"op": "pset", "i": i, "v": val})
        elif r < 0.65:
            ops.append({"op": "tx", "ts": ts})
            for k in range(1, ncons + 1):
                for i in range(1, len(lay) + 1):
                    if rng.random() < 0.5:
                        ops.append({"op": "read", "k": k, "i": i, "how": "slot" if objs else rng.choice(
                            ["slot", "slot", "index", "name", "hex", "mapno", "node_name", "node_index", "node_pdo"])})
        elif r < 0.75:
            ops.append({"op": "inject", "id": rng.choice(others + [pcob]), "d": [rng.randrange(256) for _ in range(nb)], "ts": ts})
        elif r < 0.85:
            ops.append({"op": "recfg", "k": rng.randrange(1, ncons + 1), "cob": rng.choice([pcob] + others),
                        "enabled": rng.random() < 0.8, "rtr": rng.random() < 0.5})
        elif r < 0.95:
            ops.append({"op": "rtr", "k": rng.randrange(1, ncons + 1)})
        else:
            feed = [ts] if rng.random() < 0.7 else []
            ops.append({"op": "wait", "k": rng.randrange(1, ncons + 1), "feed": feed, "timeout": 0.1, "boom": len(ops) % 2 == 0})
    case = {"lay": [list(x) for x in lay], "pcob": pcob, "cons": cons, "ops": ops, "nid": rng.choice([4, 1, 127]),
            "via_read": rng.random() < 0.5, "objs": objs}
    # (a second stream of random choices, so that the cases above stay what they were)
    r2 = random.Random(json.dumps(case, sort_keys=True))
    case["penabled"] = r2.random() < 0.7        # a producing map whose enabled flag was never set still transmits
    txs = [j for j, op in enumerate(ops) if op["op"] == "tx"]
    for j in sorted(r2.sample(txs, min(len(txs), 2)), reverse=True):
        # one map is mapped anew right after a reception (maps with colliding COB-IDs got the same frame)
        j2 = j + 1
        while j2 < len(ops) and ops[j2]["op"] == "read" and r2.random() < 0.8:
            j2 += 1
        ops.insert(j2, {"op": "remap", "k": r2.randrange(1, ncons + 1)})
        if r2.random() < 0.5:
            ops.insert(j, {"op": "pen", "v": r2.random() < 0.5})
    # time stamps that stand still or run backwards now and then (never by exactly 1: -1 is "none" in the log)
    prev = None
    for op in ops:
        if op["op"] in ("tx", "inject"):
            if prev is not None and r2.random() < 0.15:
                op["ts"] = max(1, prev - r2.choice([0, 2, 5, 100]))
            prev = op["ts"]
    # a frame on the producer's own COB-ID reaches the producer (it listens there), then it writes and transmits again
    psets = [j for j, op in enumerate(ops) if op["op"] == "pset"]
    for j in sorted(r2.sample(psets, min(len(psets), 2)), reverse=True):
        ops.insert(j, {"op": "pecho", "d": [r2.randrange(256) for _ in range(nb)], "ts": 50 + j})
    return case


def main():
    args = parse_args(PROP)
    v = Verdict(PROP, args)
    mc = tlc.run_tlc("MC_PdoBus", "MC_PdoBus.cfg", workers=args.jobs, timeout=1200)
    if not mc.ok:
        v.report({"clause": "model:" + str(mc.violated)}, f"MC_PdoBus violates {mc.violated}", {"tlc_tail": mc.stdout[-3000:]})
    gen = tlc.simulate("MC_PdoBits", "Gen_PdoBits.cfg", num=80 if args.tier == "quick" else 1500, depth=10, seed=args.seed + 7)
    lays = {json.dumps(b): b for b in tlc.beh_json(gen)}
    lays = [lays[k] for k in sorted(lays)] + hand_layouts()
    rng = random.Random(args.seed * 17 + 15)
    if args.replay:
        cases = [json.load(open(args.replay))["case"]]
    else:
        cases = [gen_case(rng, [tuple(x) for x in l], args.tier) for l in lays for _ in range(2)]
    results = run_cases("harness.drv_pdobus:run_case", cases, jobs=args.jobs, timeout=120)
    if any(r.get("hang") for r in results):
        raise RuntimeError("driver hang")
    val = tlc.validate_traces("Trace_PdoBus", results, cfg="Trace.cfg", jobs=args.jobs)
    for rej in val.rejects:
        ev = rej.event or {}
        sig = {"clause": rej.why, "ev": ev.get("e")}
        v.report(sig, f"{rej.why} [layout={cases[rej.index]['lay']} cons={cases[rej.index]['cons']}] event={str(ev)[:400]}",
                 {"case": cases[rej.index], "step": rej.step, "why": rej.why, "spec_state": rej.state[:2000], "event": ev})
    nops = {}
    for r in results:
        for e in r["ev"]:
            nops[e["e"]] = nops.get(e["e"], 0) + 1
    cov = {"states": mc.distinct, "transitions": mc.generated, "traces_validated_against_impl": val.traces,
           "samples": [results[0]["ev"][:4]], "trace_events": val.events, "operations": nops, "rejected": len(val.rejects)}
    return v.finish("model_checking", cov, [
        "integer timestamps chosen by the harness; reception from a second thread is exercised through wait_for_reception",
        "all consumer maps share the producer's layout"])


if __name__ == "__main__":
    main_wrapper(main)
