"""Specification growth beyond the listed properties (DESIGN §8 / §16.7): SYNC counter, TIME framing,
active node search, store / restore, LSS identify services.  Not registered in MANIFEST.json (there
is no listed property to report against); run manually: /venv/bin/python -m checks.extras"""
import random
import sys

from harness import tlc
from harness.pool import run_cases


def main():
    rng = random.Random(0)
    cases = [{"seed": rng.randrange(1 << 30), "n": 40} for _ in range(40)]
    res = run_cases("harness.drv_extras:run_case", cases, jobs=8, timeout=120)
    val = tlc.validate_traces("Trace_Extras", res, cfg="Trace.cfg", jobs=4)
    for r in val.rejects[:10]:
        print("EXTRA-REJECT", r.why, str(r.event)[:300])
    print(f"extras: {val.traces} traces, {val.events} events, {len(val.rejects)} rejected")
    return 1 if val.rejects else 0


if __name__ == "__main__":
    sys.exit(main())
