"""Specification growth beyond the listed properties (DESIGN §8 / §16.7): SYNC counter, TIME framing,
active node search, store / restore, LSS identify services, load_configuration, CiA 402 homing / fault reset, EPF import, the dictionary container.  Not registered in MANIFEST.json (there
is no listed property to report against); run manually: /venv/bin/python -m checks.extras"""
import random
import sys

from harness import tlc
from harness.pool import run_cases


def main():
    rng = random.Random(0)
    cases = [{"seed": rng.randrange(1 << 30), "n": 40,
              "recsubs": sorted(set(rng.sample(range(0, 256), rng.randrange(1, 9)) + ([0] if i % 2 else [])))} for i in range(40)]
    res = run_cases("harness.drv_extras:run_case", cases, jobs=8, timeout=120)
    val = tlc.validate_traces("Trace_Extras", res, cfg="Trace.cfg", jobs=4)
    for r in val.rejects[:10]:
        print("EXTRA-REJECT", r.why, str(r.event)[:300])
    print(f"extras: {val.traces} traces, {val.events} events, {len(val.rejects)} rejected")
    bad = len(val.rejects)
    # load_configuration
    cases = []
    for i in range(120):
        n = rng.randrange(0, 8)
        cases.append({"seed": rng.randrange(1 << 30), "with_pdo": i % 3 == 0,
                      "reacts": [rng.choice(["ok", "ok", "ok", "ro", "timeout", "abort"]) for _ in range(n)]})
    res = run_cases("harness.drv_loadcfg:run_case", cases, jobs=8, timeout=120)
    val = tlc.validate_traces("Trace_LoadCfg", res, cfg="Trace.cfg", jobs=4)
    for r in val.rejects[:10]:
        print("LOADCFG-REJECT", r.why, str(r.event)[:300], r.state[:200])
    print(f"load_configuration: {val.traces} traces, {val.events} events, {len(val.rejects)} rejected")
    bad += len(val.rejects)
    # homing / is_homed / reset_from_fault: design model, then traces of the real node
    mc = tlc.run_tlc("MC_Homing", "MC_Homing.cfg", workers=2, timeout=600)
    print(f"MC_Homing: ok={mc.ok} distinct={mc.distinct}")
    bad += 0 if mc.ok else 1
    outcomes = ["ATTAINED", "TARGET REACHED", "INTERRUPTED", "ERROR VELOCITY IS NOT ZERO", "ERROR VELOCITY IS ZERO"]
    inits = ["SWITCH ON DISABLED", "READY TO SWITCH ON", "SWITCHED ON", "OPERATION ENABLED", "QUICK STOP ACTIVE", "FAULT"]
    cases = []
    for init in inits:
        for outcome in outcomes:
            for delay in (0, 1, 5, 13, 40, 100000):
                for mode0 in (0, 1, 6):
                    cases.append({"init": init, "mode0": mode0, "supported": True, "delay": delay, "outcome": outcome,
                                  "ops": [{"name": "homing", "restore": rng.random() < 0.5, "timeout": 2}]})
        cases.append({"init": init, "mode0": 1, "supported": False, "delay": 0, "outcome": "ATTAINED",
                      "ops": [{"name": "homing", "restore": False}]})
        for mode0 in (0, 1, 6):
            cases.append({"init": init, "mode0": mode0, "supported": True, "delay": 0, "outcome": "ATTAINED",
                          "ops": [{"name": "reset"}, {"name": "is_homed", "restore": rng.random() < 0.5}]})
            cases.append({"init": init, "mode0": mode0, "supported": True, "delay": 3, "outcome": rng.choice(outcomes),
                          "ops": [{"name": "homing", "restore": False, "timeout": 2}, {"name": "is_homed", "restore": False},
                                  {"name": "reset"}]})
    res = run_cases("harness.drv_p402:run_homing", cases, jobs=8, timeout=120)
    val = tlc.validate_traces("Trace_Homing", res, cfg="Trace.cfg", jobs=4)
    for r in val.rejects[:10]:
        print("HOMING-REJECT", r.why, str(r.event)[:200], str(cases[r.index])[:300])
    print(f"homing: {val.traces} traces, {val.events} events, {len(val.rejects)} rejected")
    bad += len(val.rejects)
    # EPF (XML) import: one row per generated parameter, judged by Table_Epf
    cases = [{"seed": rng.randrange(1 << 30), "how": ["path", "fileobj", "element"][i % 3]} for i in range(150)]
    res = run_cases("harness.drv_epf:run_case", cases, jobs=8, timeout=120)
    rows = [r for x in res for r in x["rows"]]
    badrows, _ = tlc.check_table("Table_Epf", rows, jobs=2)
    for i, why in badrows[:10]:
        print("EPF-BADROW", why, str(rows[i])[:400])
    print(f"epf import: {len(rows)} parameters, {len(badrows)} bad rows")
    bad += len(badrows)
    # the dictionary as a container: design model (mirror maps under the pairing discipline, divergence
    # without it), then operation sequences on the real ObjectDictionary
    mc = tlc.run_tlc("MC_OdDict", "MC_OdDict.cfg", workers=4, timeout=600)
    free = tlc.run_tlc("MC_OdDict", "MC_OdDict_free.cfg", workers=1, timeout=600)
    print(f"MC_OdDict: ok={mc.ok} distinct={mc.distinct}; without the discipline: violated={free.violated} (expected Mirror)")
    bad += 0 if mc.ok and free.violated == "Mirror" else 1
    cases = [{"seed": rng.randrange(1 << 30), "n": 80, "disciplined": i % 3 == 0} for i in range(240)]
    res = run_cases("harness.drv_oddict:run_case", cases, jobs=8, timeout=120)
    val = tlc.validate_traces("Trace_OdDict", res, cfg="Trace.cfg", jobs=4)
    for r in val.rejects[:10]:
        print("ODDICT-REJECT", r.why, str(r.event)[:300], r.state[:300])
    print(f"dictionary container: {val.traces} traces, {val.events} events, {len(val.rejects)} rejected")
    bad += len(val.rejects)
    cases = [{"seed": rng.randrange(1 << 30), "n": 80, "scope": ["rec", "arr"][i % 2]} for i in range(120)]
    res = run_cases("harness.drv_oddict:run_members", cases, jobs=8, timeout=120)
    val = tlc.validate_traces("Trace_OdDict", res, cfg="Trace.cfg", jobs=4)
    for r in val.rejects[:10]:
        print("ODDICT-MEMBERS-REJECT", r.why, str(r.event)[:300], r.state[:300])
    print(f"record / array member containers: {val.traces} traces, {val.events} events, {len(val.rejects)} rejected")
    bad += len(val.rejects)
    return 1 if bad else 0


if __name__ == "__main__":
    sys.exit(main())
