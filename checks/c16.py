"""C16 -- the EMCY consumer's log and active list mirror the received history.

Leg A: MC_Emcy (all histories up to depth 6 over class-boundary codes).  Leg C: random frame
sequences, producer -> consumer round trips, waits with/without filter, all judged by TLC
(Trace_Emcy); the description of all 65536 codes as one table (Table_Emcy)."""
import random

from harness import tlc
from harness.common import Verdict, main_wrapper, parse_args
from harness.pool import run_cases

PROP = "C16"
EDGE = [0x0000, 0x0001, 0x00FF, 0x0100, 0x0FFF, 0x1000, 0x10FF, 0x1100, 0x2000, 0x2FFF, 0x3000, 0x4000, 0x5000,
        0x50FF, 0x5100, 0x6000, 0x7000, 0x70FF, 0x7100, 0x8000, 0x8FFF, 0x9000, 0x90FF, 0x9100, 0xA000, 0xF000,
        0xF0FF, 0xF100, 0xFF00, 0xFFFF]


def code(rng):
    return rng.choice(EDGE) if rng.random() < 0.6 else rng.randrange(65536)


def frame(rng):
    c = code(rng)
    return [c & 0xFF, c >> 8, rng.randrange(256)] + [rng.randrange(256) for _ in range(5)]


def gen_cases(tier, seed):
    rng = random.Random(seed * 101 + 16)
    cases = []
    for _ in range(150 if tier == "quick" else 3000):
        ops, ts = [], 10
        for _ in range(rng.choice([5, 20, 60])):
            ts += rng.randrange(0, 1000)
            r = rng.random()
            if r < 0.08:
                ops.append({"op": "bframe", "d": frame(rng), "ts": ts})
            elif r < 0.65:
                ops.append({"op": "frame", "d": frame(rng), "ts": ts if rng.random() < 0.9 else 0})   # 0 is a time stamp too
            elif r < 0.7:
                ops.append({"op": "reset"})
            elif r < 0.95:
                kind = "reset" if rng.random() < 0.25 else "send"
                ops.append({"op": "prod", "kind": kind, "code": code(rng), "reg": rng.randrange(256),
                            "data": [rng.randrange(256) for _ in range(rng.randrange(0, 6))], "ts": ts})
            else:
                ops.append({"op": "frame", "d": [0, 0, 0, 0, 0, 0, 0, 0], "ts": ts})
        cases.append({"nid": rng.choice([1, 2, 127]), "ops": ops, "ncb": rng.choice([0, 1, 3])})
    for _ in range(12 if tier == "quick" else 80):
        ops = []
        for _ in range(4):
            want = rng.choice([-1, -1, 0x1000, 0x2310, 0, 0])      # 0 = waiting for the error-reset code
            feed = []
            for _ in range(rng.randrange(0, 4)):
                f = frame(rng)
                if want >= 0 and rng.random() < 0.4:
                    f[0], f[1] = want & 0xFF, want >> 8
                feed.append([f, rng.randrange(1, 10000)])
            will_match = any(want < 0 or (f[0] | f[1] << 8) == want for f, _ in feed)
            if want >= 0 and rng.random() < 0.5:
                # non-matching frames in time, then a matching one after the time-out has expired
                feed = [[f, t] for f, t in feed if (f[0] | f[1] << 8) != want]
                late = frame(rng)
                late[0], late[1] = want & 0xFF, want >> 8
                feed.append([late, rng.randrange(1, 10000), True])
                will_match = True       # the real wait is ended by the late frame, not by real time
            ops.append({"op": "wait", "filter": want, "feed": feed, "timeout": 5 if will_match else 0.12})
            if will_match and len(ops) % 4 == 1:
                # a second caller waits at the same time, for anything or for the same code
                ops[-1]["filter2"] = -1 if len(cases) % 2 else want
            ops.append({"op": "frame", "d": frame(rng), "ts": 7})
        cases.append({"nid": 3, "ops": ops, "ncb": 1})
    return cases


def main():
    args = parse_args(PROP)
    v = Verdict(PROP, args)
    mc = tlc.run_tlc("MC_Emcy", "MC_Emcy.cfg", workers=8, timeout=1200)
    if not mc.ok:
        v.report({"clause": "model:" + str(mc.violated)}, f"MC_Emcy violates {mc.violated}", {"tlc_tail": mc.stdout[-3000:]})
    if args.replay:
        import json
        cases = [json.load(open(args.replay))["case"]]
    else:
        cases = gen_cases(args.tier, args.seed)
    results = run_cases("harness.drv_emcy:run_case", cases, jobs=args.jobs, timeout=120)
    if any(r.get("hang") for r in results):
        raise RuntimeError("driver hang")
    val = tlc.validate_traces("Trace_Emcy", results, cfg="Trace.cfg", jobs=args.jobs)
    for rej in val.rejects:
        ev = rej.event or {}
        slim = {k: x for k, x in ev.items() if k not in ("log",)}
        v.report({"clause": rej.why, "ev": ev.get("e")}, f"{rej.why}: {str(slim)[:400]}",
                 {"case": cases[rej.index], "step": rej.step, "why": rej.why, "event": ev})
    rows = run_cases("harness.drv_emcy:desc_table", [0], jobs=1, timeout=120)[0]
    bad, _ = tlc.check_table("Table_Emcy", rows, jobs=2)
    for idx, why in bad[:2000]:
        r = rows[idx]
        v.report({"clause": why, "class": r["code"] >> 8}, f"{why}: code 0x{r['code']:04X} -> {r['desc']!r}", {"row": r})
    cov = {"states": mc.distinct, "transitions": mc.generated, "traces_validated_against_impl": val.traces,
           "samples": [[{k: x for k, x in e.items() if k != "log"} for e in results[0]["ev"][:3]]],
           "trace_events": val.events, "description_table_rows": len(rows), "bad_rows": len(bad),
           "rejected": len(val.rejects)}
    return v.finish("model_checking", cov, [
        "waits are fed only after the waiter is parked on the condition variable; the time-out case uses 0.12 s",
        "timestamps are integers chosen by the harness"])


if __name__ == "__main__":
    main_wrapper(main)
