"""Case generators and reporting shared by C02 and C06 (real LocalNode/SdoServer under test)."""
from __future__ import annotations

import random

from harness import enc, tlc
from harness.pool import run_cases

INT_TYPES = sorted(enc.INT)
DATA_TYPES = [enc.VSTR, enc.OSTR, enc.USTR, enc.DOMAIN]
ALL_TYPES = INT_TYPES + [enc.BOOLEAN, enc.REAL32, enc.REAL64] + DATA_TYPES
ACCESS = ["rw", "ro", "wo", "const", "rwr", "rww"]


def rand_value(rng, dt, n=None):
    """typed value (what an EDS default / DCF value / read callback would hold)"""
    if dt in enc.INT:
        lo, hi = enc.int_range(dt)
        return rng.choice([lo, hi, 0, 1, -1 if lo < 0 else 2, rng.randint(lo, hi), rng.randint(lo, hi)])
    if dt == enc.BOOLEAN:
        return rng.choice([True, False])
    if dt in (enc.REAL32,):
        return rng.choice([0.0, 1.5, -2.25, 1e10, 5.2, float(rng.randint(-1000, 1000)) / 8])
    if dt == enc.REAL64:
        return rng.choice([0.0, 1.5, -2.25, 1e100, 5.2, rng.random()])
    if n is None:
        n = rng.choice([0, 1, 2, 3, 4, 5, 6, 7, 8, 13, 14, 15, rng.randrange(0, 65)])
    if dt == enc.VSTR:
        return "".join(chr(rng.randrange(33, 127)) for _ in range(n))
    if dt == enc.USTR:
        return "".join(chr(rng.choice([rng.randrange(33, 127), rng.randrange(0xA1, 0x2000)]))
                       for _ in range(n // 2))
    return {"bytes": [rng.randrange(256) for _ in range(n)]}


def rand_bytes_for(rng, dt, n=None):
    """a download payload acceptable for type dt"""
    if dt in enc.NUM_SIZE:
        return [rng.randrange(256) for _ in range(enc.NUM_SIZE[dt])]
    if n is None:
        n = rng.choice([0, 1, 2, 3, 4, 5, 6, 7, 8, 13, 14, 15, 21, rng.randrange(0, 65)])
    return [rng.randrange(256) for _ in range(n)]


def member(rng, sub, dt=None, acc=None, src=None, n=None):
    dt = dt if dt is not None else rng.choice(ALL_TYPES)
    acc = acc or rng.choice(ACCESS + ["rw", "rw"])
    src = src or rng.choice(["none", "default", "value", "both", "rcb", "all", "default", "value"])
    m = {"sub": sub, "dt": dt, "acc": acc}
    if src in ("default", "both", "all"):
        m["default"] = rand_value(rng, dt, n)
    if src in ("value", "both", "all"):
        m["value"] = rand_value(rng, dt, n)
    if src in ("rcb", "all"):
        m["rcb"] = rand_value(rng, dt, n)
    return m


def rand_objs(rng, nobj=6):
    objs = []
    used = set()
    for _ in range(nobj):
        while True:
            idx = rng.choice([rng.randrange(0x2000, 0x6000), rng.randrange(0x1000, 0x1017),
                              rng.randrange(0x6000, 0xA000), 0x2000, 0xFFFF, 0x1018])
            if idx not in used and idx != 0x1017:
                used.add(idx)
                break
        kind = rng.choice(["var", "var", "rec", "arr"])
        name = f"Obj{idx:04X}"
        if kind == "var":
            objs.append({"kind": "var", "idx": idx, "name": name, "members": [member(rng, 0)]})
        elif kind == "rec":
            subs = sorted(rng.sample(range(1, 12), rng.randrange(1, 5)))
            ms = [member(rng, 0, dt=enc.INT and 0x5, acc="ro", src="default")]
            ms[0]["default"] = max(subs)
            ms += [member(rng, s) for s in subs]
            objs.append({"kind": "rec", "idx": idx, "name": name, "members": ms})
        else:
            n = rng.randrange(1, 5)
            dt = rng.choice(ALL_TYPES)
            ms = [member(rng, 0, dt=0x5, acc="ro", src="default")]
            ms[0]["default"] = n
            ms += [member(rng, s, dt=dt) for s in range(1, n + 1)]
            if idx % 2 == 0:
                # a member the dictionary does not list: the library serves it on demand with member 1's
                # type, access and DEFAULT (not its configured value, not its read callback); the server
                # model sees an ordinary entry, the dictionary under test does not contain it
                v = {"sub": n + 1 + idx % 7, "dt": ms[1]["dt"], "acc": ms[1]["acc"], "virtual": True}
                if ms[1].get("default") is not None:
                    v["default"] = ms[1]["default"]
                ms.append(v)
            objs.append({"kind": "arr", "idx": idx, "name": name, "members": ms})
    return objs


def garbage(rng):
    kind = rng.randrange(6)
    if kind == 0:      # arbitrary short frame
        return [rng.randrange(256) for _ in range(rng.randrange(1, 8))]
    if kind == 1:      # every command specifier with random tail
        return [rng.randrange(8) << 5 | rng.randrange(32)] + [rng.randrange(256) for _ in range(7)]
    if kind == 2:      # segment requests out of the blue
        return [rng.choice([0x60, 0x70, 0x00, 0x10, 0x01, 0x11, 0x0F])] + [0] * 7
    if kind == 3:      # client abort
        return [0x80, 0, 0, 0] + [rng.randrange(256) for _ in range(4)]
    if kind == 4:      # block download initiate / unknown specifier
        return [rng.choice([0xC0, 0xC2, 0xC6, 0xE0, 0xE1, 0xFF])] + [rng.randrange(256) for _ in range(7)]
    return [rng.choice([0xA3, 0xA2, 0xA1, 0xC1])] + [rng.randrange(256) for _ in range(7)]


def entries_of(objs):
    out = []
    for o in objs:
        for m in o["members"]:
            out.append((o, m))
    return out


def chunks_for(rng, n):
    if rng.random() < 0.5:
        return []
    parts = []
    while n > 0:
        k = min(n, rng.randrange(1, 8))
        parts.append(k)
        n -= k
    return parts


def dl_item(rng, idx, sub, data, force_seg=False):
    n = len(data)
    if 1 <= n <= 4 and not force_seg and rng.random() < 0.7:
        return {"k": "dl", "idx": idx, "sub": sub, "data": data, "mode": "exp",
                "sized": True if n < 4 else rng.random() < 0.8, "padval": rng.choice([0, 0, 0xFF])}
    return {"k": "dl", "idx": idx, "sub": sub, "data": data, "mode": "seg",
            "sized": rng.random() < 0.7, "chunks": chunks_for(rng, n), "padval": rng.choice([0, 0, 0xAA])}


def gen_case(rng, focus):
    """focus: 'serve' (C02 values / stores / garbage) or 'refuse' (C06 refusals)."""
    objs = rand_objs(rng, rng.randrange(3, 8))
    ents = entries_of(objs)
    script = []
    if rng.random() < 0.35:
        script.append({"k": "raw", "d": garbage(rng)})          # garbage on a fresh node
    steps = rng.randrange(4, 12)
    for _ in range(steps):
        o, m = rng.choice(ents)
        idx, sub, dt = o["idx"], m["sub"], m["dt"]
        r = rng.random()
        if focus == "refuse":
            pick = rng.choice(["missing_idx", "missing_sub", "wrong_len", "ro_write", "wo_read",
                               "novalue", "toggle_ul", "toggle_dl", "repeat_seg", "unknown", "block_dl", "ok_dl",
                               "ok_ul", "var_sub", "cross", "abandon"])
        else:
            pick = rng.choice(["ok_dl", "ok_dl", "ok_ul", "ok_ul", "ok_ul", "garbage", "restart",
                               "block_ul", "missing_sub", "wrong_len", "toggle_ul", "cross"])
        if pick == "cross":
            # a segment of the other direction, carrying the toggle bit the server expects next, in the
            # middle of a segmented transfer
            k = rng.randrange(0, 3)
            if rng.random() < 0.5:
                script.append({"k": "ul", "idx": idx, "sub": sub, "stop_after": k})
                script.append({"k": "raw", "d": [((k % 2) << 4) | (4 << 1) | rng.choice([0, 1]), 1, 2, 3, 0, 0, 0, 0]})
            else:
                it = dl_item(rng, idx, sub, rand_bytes_for(rng, enc.DOMAIN, rng.randrange(15, 40)), force_seg=True)
                it["stop_after"] = k
                script.append(it)
                script.append({"k": "raw", "d": [0x60 | ((k % 2) << 4), 0, 0, 0, 0, 0, 0, 0]})
            script.append({"k": "ul", "idx": idx, "sub": sub})
            continue
        if pick == "abandon":
            # a segmented transfer given up half way (by an abort frame of the client or simply by the next
            # initiate request) leaves nothing behind: the next one starts with toggle 0 again
            k = rng.choice([1, 1, 2, 3])
            if rng.random() < 0.5:
                script.append({"k": "ul", "idx": idx, "sub": sub, "stop_after": k})
            else:
                it = dl_item(rng, idx, sub, rand_bytes_for(rng, enc.DOMAIN, rng.randrange(22, 40)), force_seg=True)
                it["stop_after"] = k
                script.append(it)
            if rng.random() < 0.5:
                script.append({"k": "raw", "d": [0x80, idx & 0xFF, idx >> 8, sub, 0, 0, 4, 5]})
            nxt = rng.choice(["ul_bad", "dl_bad", "ul", "dl"])
            if nxt.startswith("ul"):
                it = {"k": "ul", "idx": idx, "sub": sub}
            else:
                it = dl_item(rng, idx, sub, rand_bytes_for(rng, enc.DOMAIN, rng.randrange(8, 40)), force_seg=True)
            if nxt.endswith("bad"):
                it["bad_toggle_at"] = 0
            script.append(it)
            script.append({"k": "ul", "idx": idx, "sub": sub})
            continue
        if pick == "ok_ul":
            script.append({"k": "ul", "idx": idx, "sub": sub})
        elif pick == "block_ul":
            script.append({"k": "ul", "idx": idx, "sub": sub, "block": True})
        elif pick == "ok_dl":
            data = rand_bytes_for(rng, dt)
            script.append(dl_item(rng, idx, sub, data))
            script.append({"k": "ul", "idx": idx, "sub": sub})
        elif pick == "garbage":
            for _ in range(rng.randrange(1, 4)):
                script.append({"k": "raw", "d": garbage(rng)})
        elif pick == "restart":
            data = rand_bytes_for(rng, enc.DOMAIN, rng.randrange(8, 40))
            it = dl_item(rng, idx, sub, data, force_seg=True)
            it["stop_after"] = rng.randrange(0, 3)
            script.append(it)
            if rng.random() < 0.5:
                script.append({"k": "ul", "idx": idx, "sub": sub, "stop_after": rng.randrange(0, 2)})
        elif pick == "missing_idx":
            bad = rng.choice([0x1FFF, 0x5FFF, 0xA000, 0x0000, idx ^ 0x4000])
            if any(x["idx"] == bad for x in objs):
                continue
            if rng.random() < 0.5:
                script.append({"k": "ul", "idx": bad, "sub": rng.choice([0, 1, 255])})
            else:
                script.append(dl_item(rng, bad, rng.choice([0, 1]), rand_bytes_for(rng, enc.DOMAIN)))
        elif pick == "missing_sub":
            recs = [x for x in objs if x["kind"] == "rec"]
            if not recs:
                continue
            o2 = rng.choice(recs)
            have = {mm["sub"] for mm in o2["members"]}
            bad = rng.choice([s for s in (12, 13, 100, 255) if s not in have])
            if rng.random() < 0.5:
                script.append({"k": "ul", "idx": o2["idx"], "sub": bad})
            else:
                script.append(dl_item(rng, o2["idx"], bad, rand_bytes_for(rng, enc.DOMAIN)))
        elif pick == "var_sub":
            vars_ = [x for x in objs if x["kind"] == "var"]
            if not vars_:
                continue
            o2 = rng.choice(vars_)
            if rng.random() < 0.5:
                script.append({"k": "ul", "idx": o2["idx"], "sub": rng.choice([1, 2, 255])})
            else:
                script.append(dl_item(rng, o2["idx"], rng.choice([1, 7]),
                                      rand_bytes_for(rng, o2["members"][0]["dt"])))
        elif pick == "wrong_len":
            nums = [(oo, mm) for oo, mm in ents if mm["dt"] in enc.NUM_SIZE]
            if not nums:
                continue
            o2, m2 = rng.choice(nums)
            n = rng.choice([x for x in range(0, 10) if x != enc.NUM_SIZE[m2["dt"]]])
            script.append(dl_item(rng, o2["idx"], m2["sub"], [rng.randrange(256) for _ in range(n)],
                                  force_seg=(n == 0)))
            script.append({"k": "ul", "idx": o2["idx"], "sub": m2["sub"]})
        elif pick == "ro_write":
            ros = [(oo, mm) for oo, mm in ents if mm["acc"] in ("ro", "const")]
            if not ros:
                continue
            o2, m2 = rng.choice(ros)
            script.append(dl_item(rng, o2["idx"], m2["sub"], rand_bytes_for(rng, m2["dt"])))
            script.append({"k": "ul", "idx": o2["idx"], "sub": m2["sub"]})
        elif pick == "wo_read":
            wos = [(oo, mm) for oo, mm in ents if mm["acc"] == "wo"]
            if not wos:
                continue
            o2, m2 = rng.choice(wos)
            if len(script) % 2 == 0:
                # the write-only entry has been written before: a stored value exists, reading stays refused
                script.append(dl_item(rng, o2["idx"], m2["sub"], rand_bytes_for(rng, m2["dt"])))
            script.append({"k": "ul", "idx": o2["idx"], "sub": m2["sub"]})
        elif pick == "novalue":
            nov = [(oo, mm) for oo, mm in ents
                   if not any(k in mm for k in ("default", "value", "rcb"))]
            if not nov:
                continue
            o2, m2 = rng.choice(nov)
            script.append({"k": "ul", "idx": o2["idx"], "sub": m2["sub"]})
        elif pick == "toggle_ul":
            script.append({"k": "ul", "idx": idx, "sub": sub, "bad_toggle_at": rng.randrange(0, 3)})
        elif pick == "toggle_dl":
            data = rand_bytes_for(rng, enc.DOMAIN, rng.randrange(8, 40))
            it = dl_item(rng, idx, sub, data, force_seg=True)
            it["bad_toggle_at"] = rng.randrange(0, 3)
            script.append(it)
            script.append({"k": "ul", "idx": idx, "sub": sub})
        elif pick == "repeat_seg":
            data = rand_bytes_for(rng, enc.DOMAIN, rng.randrange(15, 40))
            it = dl_item(rng, idx, sub, data, force_seg=True)
            it["repeat_at"] = rng.randrange(0, 2)
            script.append(it)
            script.append({"k": "ul", "idx": idx, "sub": sub})
        elif pick == "unknown":
            script.append({"k": "raw", "d": [rng.choice([0xE0, 0xE5, 0xFF, 0xF0])] +
                           [rng.randrange(256) for _ in range(7)]})
        elif pick == "block_dl":
            script.append({"k": "raw", "d": [rng.choice([0xC0, 0xC2, 0xC4, 0xC6]), idx & 0xFF, idx >> 8,
                                             sub] + [rng.randrange(256) for _ in range(4)]})
    # the library serves every sub-index 1..255 of an ARRAY on demand from member 1 (a feature the
    # server model does not describe): a raw frame that happens to address such a member is re-aimed
    # at sub-index 0
    arrays = {o["idx"]: {m["sub"] for m in o["members"]} for o in objs if o["kind"] == "arr"}
    for it in script:
        d = it.get("d") if it["k"] == "raw" else None
        if d and len(d) >= 4 and (d[1] | d[2] << 8) in arrays and d[3] not in arrays[d[1] | d[2] << 8]:
            d[3] = 0
    return {"objs": objs, "script": script, "ncb": rng.choice([0, 1, 2]), "seed": rng.randrange(1 << 30),
            "nrcb": 1 + rng.randrange(1 << 30) % 3}


def length_sweep_cases(rng, maxlen=64):
    """every value length 0..maxlen through every value source; download then upload"""
    cases = []
    for n in range(0, maxlen + 1):
        for dt in DATA_TYPES:
            if dt == enc.USTR and n % 2:
                continue
            for src in ("default", "value", "rcb", "download"):
                m = {"sub": 0, "dt": dt, "acc": "rw"}
                script = []
                if src == "download":
                    script.append(dl_item(rng, 0x2000, 0, [rng.randrange(256) for _ in range(n)]))
                else:
                    m[src] = rand_value(rng, dt, n)
                script.append({"k": "ul", "idx": 0x2000, "sub": 0})
                script.append({"k": "ul", "idx": 0x2000, "sub": 0, "block": True})
                cases.append({"objs": [{"kind": "var", "idx": 0x2000, "name": "V", "members": [m]}],
                              "script": script, "ncb": 1, "seed": 0})
    return cases


def long_cases(rng, lens):
    cases = []
    for n in lens:
        data = [rng.randrange(256) for _ in range(n)]
        cases.append({"objs": [{"kind": "var", "idx": 0x2000, "name": "V",
                                "members": [{"sub": 0, "dt": enc.DOMAIN, "acc": "rw"}]}],
                      "script": [dl_item(rng, 0x2000, 0, data, force_seg=True),
                                 {"k": "ul", "idx": 0x2000, "sub": 0}], "ncb": 1, "seed": 0})
    return cases


def classify(trace, rej):
    """signature of a rejected server trace for the known-findings matcher"""
    e = rej.event or {}
    q = e.get("q", [])
    sig = {"clause": rej.why}
    if q:
        sig["ccs"] = q[0] >> 5
    sig["fresh"] = rej.step == 0 or all(
        (x["q"][0] >> 5) not in (1, 2, 5) or len(x["q"]) < 4 for x in trace["ev"][:rej.step])
    r = e.get("r", [])
    if r and len(r[0]) == 8:
        sig["resp0"] = r[0][0]
    return sig


def run_and_validate(cases, jobs):
    results = run_cases("harness.drv_sdo_server:run_case", cases, jobs=jobs, timeout=30)
    traces = []
    for c, r in zip(cases, results):
        if r.get("hang"):
            traces.append({"od": [], "ncb": 0, "ev": [{"e": "hang", "n": 1}]})
        else:
            traces.append(r)
    val = tlc.validate_traces("Trace_SdoServer", traces, cfg="Trace.cfg", jobs=jobs)
    return traces, val
