"""C20 -- physical, described and bit-field views agree with the raw value.

Leg A: MC_Views (8-bit raw: every contiguous bit range x every field value; phys fix-point /
uniqueness for a set of factors).  Leg C: SDO- and PDO-backed variables with factors over several
magnitudes and signs, description tables of 1..20 entries, every contiguous bit range within 32 bits
in each spelling (bit number, list, slice, defined name); every step judged by TLC (Trace_Views)."""
import random

from harness import enc, tlc
from harness.common import Verdict, main_wrapper, parse_args
from harness.pool import run_cases

PROP = "C20"
FACTORS = [(1, 1), (1, 10), (1, 4), (5, 2), (-3, 7), (25, 1), (1, 20), (-1, 8), (7, 3), (50, 1), (3, 20), (-1, 1),
           (-3, 1), (7, 1), (-5, 1), (2, 1), (-2, 1)]
UTYPES = {8: 0x5, 16: 0x6, 32: 0x7}


def gen_cases(tier, seed):
    rng = random.Random(seed * 7 + 20)
    cases = []
    # phys + desc
    for kind in ("sdo", "pdo"):
        for fn, fd in FACTORS:
            for t in (0x3, 0x6, 0x4, 0x5, 0x2):
                lo, hi = enc.int_range(t)
                lo, hi = max(lo, -2000), min(hi, 2000)
                ndesc = rng.randrange(1, 21)
                vals = rng.sample(range(max(lo, -100), min(hi, 100) + 1), min(ndesc, min(hi, 100) - max(lo, -100) + 1))
                descs = [[v, f"state {i} of {v}"] for i, v in enumerate(vals)]
                # names that differ in case or in a trailing / leading blank only are different names
                near = ["on", "ON", "On ", " on", "Ramp", "Ramp "]
                for j in range(min(len(descs), len(near)) if len(cases) % 2 else 0):
                    descs[j][1] = near[j]
                if len(cases) % 4 == 2 and len(descs) > 1:
                    # names that read like numbers, namely like the value of the neighbouring entry
                    for j in range(len(descs)):
                        descs[j][1] = str(descs[(j + 1) % len(descs)][0])
                ops = []
                for _ in range(12 if tier == "quick" else 60):
                    r = rng.randint(lo, hi)
                    # value = r*f + delta with |delta| <= 0.4 |f|, expressed as a small rational
                    dn = rng.choice([-2, -1, 0, 0, 1, 2])      # delta = dn/5 * f
                    vn, vd = (5 * r + dn) * fn, 5 * fd
                    if vd < 0:
                        vn, vd = -vn, -vd
                    if vd > 100:
                        continue
                    ops += [{"op": "phys_set", "vn": vn, "vd": vd}, {"op": "phys_get"}]
                    if fd == 1 and abs(fn) > 1:
                        # integer factor, integer physical value off the grid by less than half a step
                        k = rng.randint(-((abs(fn) - 1) // 2), (abs(fn) - 1) // 2)
                        ops += [{"op": "phys_set", "vn": r * fn + k, "vd": 1}, {"op": "phys_get"}]
                    if rng.random() < 0.3:
                        ops += [{"op": "setraw", "v": rng.randint(lo, hi)}, {"op": "phys_get"}]
                    if rng.random() < 0.3:
                        ops += [{"op": "setdata", "v": rng.randint(lo, hi), "how": rng.choice(["same", "other"])},
                                {"op": "phys_get"}, {"op": "desc_get"}]
                for v, name in descs:
                    ops += [{"op": "desc_set", "name": name}, {"op": "desc_get"}]
                ops += [{"op": "desc_set", "name": "no such state"}, {"op": "setraw", "v": rng.choice([x for x in range(lo, hi) if x not in vals] or [vals[0]])},
                        {"op": "desc_get"}]
                for v in vals[:5]:
                    ops += [{"op": "setraw", "v": v}, {"op": "desc_get"}]
                # the text of a described value is replaced after descriptions have been written, and one more
                # value gets a description: the new texts name their values, the replaced one names nothing
                free = [x for x in range(lo, hi + 1) if x not in vals]
                ops += [{"op": "redesc", "val": vals[0], "name": "renamed"}, {"op": "desc_set", "name": "renamed"},
                        {"op": "desc_get"}, {"op": "desc_set", "name": descs[0][1]}, {"op": "desc_get"}]
                if free:
                    ops += [{"op": "redesc", "val": free[len(cases) % len(free)], "name": "one more"},
                            {"op": "desc_set", "name": "one more"}, {"op": "desc_get"}]
                if len(vals) > 1:
                    ops += [{"op": "desc_set", "name": descs[1][1]}, {"op": "desc_get"}]
                # the scaling factor is changed after physical values have been written and read
                for nfn, nfd in [f for f in ((1, 4), (-5, 2), (3, 1)) if f != (fn, fd)][:2]:
                    ops.append({"op": "refactor", "fn": nfn, "fd": nfd})
                    for r in (1, -3 if lo < 0 else 3, min(hi, 40) // abs(nfn)):
                        ops += [{"op": "phys_set", "vn": r * nfn, "vd": nfd}, {"op": "phys_get"}]
                cases.append({"kind": kind, "t": t, "fn": fn, "fd": fd, "descs": descs, "bitdefs": [], "ops": ops,
                              "fn_api": len(cases) % 2 == 1, "arr_member": kind == "sdo" and len(cases) % 3 == 0})
    # bit fields: every contiguous range within the type's width, four spellings
    for kind in ("sdo", "pdo"):
        for w, t in UTYPES.items():
            ranges = [(lo, hi) for lo in range(w) for hi in range(lo, w)]
            if tier == "quick" and w == 32:
                ranges = rng.sample(ranges, 140) + [(0, 31), (31, 31), (0, 0), (2, 4), (16, 31)]
            rng.shuffle(ranges)
            for i in range(0, len(ranges), 25):
                chunk = ranges[i:i + 25]
                names = {(lo, hi): f"Field {j}" for j, (lo, hi) in enumerate(chunk)}      # the same names on every variable, other bits
                bitdefs = [[names[(lo, hi)], list(range(lo, hi + 1))] for lo, hi in chunk]
                ops = []
                for lo, hi in chunk:
                    n = hi - lo + 1
                    bits = list(range(lo, hi + 1))
                    spell = ["list", "slice", "slice_step", "name", "list_desc", "slice_down"] + (["int"] if n == 1 else [])
                    vals = list(range(1 << n)) if n <= (8 if tier == "thorough" else 4) else \
                        sorted({0, 1, (1 << n) - 1, 1 << (n - 1), rng.randrange(1 << n), rng.randrange(1 << n)})
                    ops.append({"op": "setraw", "v": rng.getrandbits(w)})
                    for val in vals:
                        sp = rng.choice(spell)
                        ops.append({"op": "bits_set", "bits": bits, "spelling": sp, "name": names[(lo, hi)], "val": val})
                        sp2 = rng.choice(spell)
                        ops.append({"op": "bits_get", "bits": bits, "spelling": sp2, "name": names[(lo, hi)]})
                    for sp in spell:
                        if rng.random() < 0.5:
                            ops.append({"op": "setdata", "v": rng.getrandbits(w), "how": rng.choice(["same", "other"])})
                        ops.append({"op": "bits_get", "bits": bits, "spelling": sp, "name": names[(lo, hi)]})
                        ops.append({"op": "bits_set", "bits": bits, "spelling": sp, "name": names[(lo, hi)], "val": rng.randrange(1 << n)})
                cases.append({"kind": kind, "t": t, "fn": 1, "fd": 1, "descs": [], "bitdefs": bitdefs, "ops": ops,
                              "desc_defs": True, "arr_member": kind == "sdo" and len(cases) % 3 == 0,
                              "held": len(cases) % 2 == 1})
    # bit fields of signed variables (raw values of both signs, fields with and without the sign bit)
    for kind in ("sdo", "pdo"):
        for w, t in {8: 0x2, 16: 0x3, 32: 0x4}.items():
            ranges = [(lo, hi) for lo in range(w) for hi in range(lo, w)]
            ranges = rng.sample(ranges, 36 if tier == "quick" else min(len(ranges), 300)) + [(w - 1, w - 1), (0, w - 1), (0, 0)]
            for i in range(0, len(ranges), 13):
                chunk = ranges[i:i + 13]
                names = {(lo, hi): f"Field {j}" for j, (lo, hi) in enumerate(chunk)}      # the same names on every variable, other bits
                bitdefs = [[names[(lo, hi)], list(range(lo, hi + 1))] for lo, hi in chunk]
                ops = []
                for lo, hi in chunk:
                    n = hi - lo + 1
                    bits = list(range(lo, hi + 1))
                    spell = ["list", "slice", "slice_step", "name", "list_desc", "slice_down"] + (["int"] if n == 1 else [])
                    for raw in (-1, -(1 << (w - 1)), (1 << (w - 1)) - 1, 0, rng.randrange(-(1 << (w - 1)), 0),
                                rng.randrange(0, 1 << (w - 1))):
                        ops.append({"op": "setraw", "v": raw})
                        for val in sorted({0, 1, (1 << n) - 1, rng.randrange(1 << n)}):
                            ops.append({"op": "bits_set", "bits": bits, "spelling": rng.choice(spell),
                                        "name": names[(lo, hi)], "val": val})
                            ops.append({"op": "bits_get", "bits": bits, "spelling": rng.choice(spell),
                                        "name": names[(lo, hi)]})
                cases.append({"kind": kind, "t": t, "fn": 1, "fd": 1, "descs": [], "bitdefs": bitdefs, "ops": ops,
                              "image": True, "held": len(cases) % 2 == 1})
    return cases


def main():
    args = parse_args(PROP)
    v = Verdict(PROP, args)
    mc = tlc.run_tlc("MC_Views", "MC_Views.cfg", workers=args.jobs, timeout=1200)
    if not mc.ok:
        v.report({"clause": "model:" + str(mc.violated)}, f"MC_Views violates {mc.violated}", {"tlc_tail": mc.stdout[-3000:]})
    if args.replay:
        import json
        cases = [json.load(open(args.replay))["case"]]
    else:
        cases = gen_cases(args.tier, args.seed)
    results = run_cases("harness.drv_views:run_case", cases, jobs=args.jobs, timeout=120)
    if any(r.get("hang") for r in results):
        raise RuntimeError("driver hang")
    val = tlc.validate_traces("Trace_Views", results, cfg="Trace.cfg", jobs=args.jobs)
    for rej in val.rejects:
        ev = rej.event or {}
        c = cases[rej.index]
        sig = {"clause": rej.why, "ev": ev.get("e"), "spelling": ev.get("spelling"), "kind": c["kind"]}
        v.report(sig, f"{rej.why} [kind={c['kind']} type=0x{c['t']:X} factor={c['fn']}/{c['fd']}] event={str(ev)[:300]} raw={rej.state[:120]}",
                 {"case": c, "step": rej.step, "why": rej.why, "spec_state": rej.state, "event": ev})
    nops = {}
    for r in results:
        for e in r["ev"]:
            nops[e["e"]] = nops.get(e["e"], 0) + 1
    cov = {"states": mc.distinct, "transitions": mc.generated, "traces_validated_against_impl": val.traces,
           "samples": [results[0]["ev"][:5]], "trace_events": val.events, "operations": nops, "rejected": len(val.rejects)}
    return v.finish("model_checking", cov, [
        "physical values are small rationals k*f + delta*f with |delta| <= 0.4 (away from rounding ties); raw values within +-2000 so that all products stay below 2^31 in TLC",
        "the physical value read back is compared with raw*factor up to 1/(den*1000)",
        "bit fields on unsigned and signed 8/16/32-bit variables (signed raw values judged on their two's-complement image)"])


if __name__ == "__main__":
    main_wrapper(main)
