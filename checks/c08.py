"""C08 -- importing an EDS/DCF yields exactly the described object dictionary.

Leg A/B: MC_Eds -- TLC enumerates the feature space of an object description (15 180 vectors: data
type x access-type spelling x default-value form x limit form x PDO key), checks the reference
semantics on it and prints the vectors; the harness packs every vector into generated documents.
Leg C: the documents (plus seeded random ones: records, arrays, CompactSubObj with/without name list,
sub/Sub spelling, missing ObjectType, DOMAIN objects, comments, device info, node id from argument /
file / absent) are rendered by an independent writer, imported by the library, and every imported
object / document is judged by TLC against the abstract document (Table_Eds / Eds.tla)."""
import json
import random

from harness import tlc
from harness.common import Verdict, main_wrapper, parse_args
from harness.pool import run_cases

PROP = "C08"


def main():
    args = parse_args(PROP)
    v = Verdict(PROP, args)
    mc = tlc.run_tlc("MC_Eds", "MC_Eds.cfg", workers=1, timeout=1200)
    if not mc.ok:
        v.report({"clause": "model:" + str(mc.violated)}, f"MC_Eds violates {mc.violated}", {"tlc_tail": mc.stdout[-3000:]})
    feats = {json.dumps(b, sort_keys=True): b for b in tlc.beh_json(mc)}
    feats = [feats[k] for k in sorted(feats)]
    rng = random.Random(args.seed * 23 + 8)
    rng.shuffle(feats)
    if args.tier == "quick":
        feats = feats[:3000]
    if args.replay:
        cases = [json.load(open(args.replay))["case"]]
    else:
        cases = []
        per = 25
        for i in range(0, len(feats), per):
            cases.append({"seed": rng.randrange(1 << 30), "nobj": 4, "features": feats[i:i + per],
                          "via": rng.choice(["path", "path", "fileobj", "node"]), "suffix": rng.choice([".eds", ".dcf", ".EDS"])})
        for _ in range(150 if args.tier == "quick" else 3000):
            cases.append({"seed": rng.randrange(1 << 30), "nobj": rng.randrange(4, 16),
                          "via": rng.choice(["path", "path", "fileobj", "node"]), "suffix": rng.choice([".eds", ".dcf"])})
    results = run_cases("harness.drv_eds:import_case", cases, jobs=args.jobs, timeout=120)
    if any(r.get("hang") for r in results):
        raise RuntimeError("driver hang")
    rows, owner = [], []
    for ci, r in enumerate(results):
        for row in r["rows"]:
            if row["kind"] == "crash":
                v.report({"clause": "import raised", "repr": row["repr"][:60]}, f"import of a well-formed document raised: {row['repr']}",
                         {"case": cases[ci], "text": r.get("text", "")[:4000]})
                continue
            rows.append(row)
            owner.append(ci)
    bad, _ = tlc.check_table("Table_Eds", rows, jobs=args.jobs)
    for idx, why in bad:
        r = rows[idx]
        d = r["d"]
        dts = sorted({m["var"]["dt"] for m in d.get("members", [])} | ({d["var"]["dt"]} if "name" in d.get("var", {}) else set())) if r["kind"] == "obj" else []
        sig = {"clause": why, "kind": r["kind"], "compact": bool(r["kind"] == "obj" and d["compact"] >= 0),
               "int24_40_48_56": bool(set(dts) & {0x10, 0x12, 0x13, 0x14})}
        v.report(sig, f"{why}: {json.dumps(r)[:700]}", {"case": cases[owner[idx]], "row": r})
    kinds = {}
    for r in rows:
        kinds[r["kind"]] = kinds.get(r["kind"], 0) + 1
    cov = {"states": mc.distinct, "transitions": mc.generated, "traces_validated_against_impl": len(cases),
           "samples": [{"row": json.loads(json.dumps(rows[min(1, len(rows) - 1)]))}], "rows_judged": kinds, "documents": len(cases),
           "feature_vectors_from_tlc": len(feats), "bad_rows": len(bad)}
    return v.finish("model_checking", cov, [
        "lexical matters (INI syntax, number spelling, quoting) are the independent writer's: the specification covers the MEANING of well-formed documents",
        "generated names are unique, contain no ' ;', no leading/trailing blanks; $NODEID forms only when a node id is in force; limits only on integer types",
        "members of CompactSubObj arrays are compared for type / access / PDO mapping / default / limits (and names when a name list is given)",
        "weakest fit of the technique: a parser's fidelity is judged by a TLA+ reference semantics evaluated by TLC (table validation), no state space involved"])


if __name__ == "__main__":
    main_wrapper(main)
