"""C07 -- a disturbed SDO transfer fails loudly and does not poison the next one.

Leg A: TLC checks MC_SdoFaults (every protocol step x every disturbance kind x lengths around the
       framing boundaries, one disturbance, then an undisturbed transfer): NoSilentCorruption,
       Recovery (thorough: termination under fairness).
Leg B: every disturbed scenario TLC reached (printed by the model) is replayed into the real
       SdoClient with virtual time; Leg C: the recorded traces (fault events included) are
       validated by TLC against Trace_SdoClient: time-out abort frame, loud failure or correct
       data, next transfers fully legal and correct.
"""
import json
import random

from checks.c01 import entry, payload
from harness import tlc
from harness.common import Verdict, main_wrapper, parse_args
from harness.pool import run_cases

PROP = "C07"
FOLLOW = [
    # (a download without declared size first: whatever the disturbed transfer announced must be forgotten)
    {"api": "open_w", "idx": 0x2000, "sub": 0, "data": [9, 8, 7, 6, 5, 4, 3, 2, 1, 0, 1, 2, 3], "size": -1, "buffering": 1024,
     "chunks": [13], "mode": "wb", "force": False},
    {"api": "download", "idx": 0x2000, "sub": 0, "data": [11, 22, 33, 44, 55, 66, 77, 88, 99]},
    {"api": "upload", "idx": 0x2000, "sub": 0},
    {"api": "upload", "idx": 0x2007, "sub": 0},
]


BLOCK_STATS = {}


def block_cases(rng, tier):
    """every frame the server sends in a block transfer x every disturbance kind, then an undisturbed
    transfer of the same kind on the same client and server"""
    cases = []
    lens = [1, 7, 8, 14, 15, 22, 50] + ([900] if tier == "quick" else [889, 890, 896, 900, 1800])
    for op in ("bdl", "bul"):
        for n in lens:
            for blks in ([127], [3], [1]):
                if n >= 800 and blks != [127]:
                    continue
                nseg = (n + 6) // 7
                b = blks[0]
                nfr = 1 + (-(-nseg // b)) + 1 if op == "bdl" else 1 + nseg + 1
                pos = list(range(1, nfr + 1)) if nfr <= 12 else sorted(
                    {1, 2, 3, nfr - 1, nfr, 128, 129, rng.randrange(2, nfr), rng.randrange(2, nfr)} & set(range(1, nfr + 1)))
                val = [rng.randrange(256) for _ in range(n)]
                for at in pos:
                    kinds = ["drop", "abort", "cs", "dup", "stale", "stale_after"] + (["mux", "muxsub"] if at == 1 else [])
                    for kind in kinds:
                        crc = rng.random() < 0.5
                        c = {"op": op, "crc": crc, "srvcrc": True, "blks": blks, "buffering": 1024,
                             "fault": {"at": at, "kind": kind}, "seed": rng.randrange(1 << 30),
                             "stale_between": rng.random() < 0.3}
                        if op == "bdl":
                            c.update(data=val, size=n, chunks=[n])
                        else:
                            c.update(value=val, size_ind=rng.random() < 0.7, reads=[])
                        cases.append(c)
    return cases


def block_leg(v, args, rng):
    if args.replay:
        c = json.load(open(args.replay))["case"]
        if "fault" not in c or "op" not in c:
            return
        cases = [c]
    else:
        cases = block_cases(rng, args.tier)
    results = run_cases("harness.drv_sdo_block:run_case", cases, jobs=args.jobs, timeout=30)
    traces = [r if not r.get("hang") else {"ev": [{"e": "hang", "n": 1}], "value": c.get("value", []), "srvcrc": True}
              for c, r in zip(cases, results)]
    val = tlc.validate_traces("Trace_SdoBlock", traces, cfg="Trace.cfg", jobs=args.jobs)
    for rej in val.rejects:
        c = cases[rej.index]
        ncall = sum(1 for e in traces[rej.index]["ev"][:rej.step + 1] if e["e"] == "call")
        sig = {"clause": rej.why, "kind": c["fault"]["kind"], "op": c["op"], "in_followup": ncall > 1, "block": True}
        v.report(sig, f"{rej.why} [block {c['op']} len={len(c.get('data') or c.get('value') or [])} blks={c['blks']} "
                      f"crc={c['crc']} fault={c['fault']}] event={str(rej.event)[:300]}",
                 {"case": c, "step": rej.step, "why": rej.why, "spec_state": rej.state,
                  "trace_tail": traces[rej.index]["ev"][max(0, rej.step - 5):rej.step + 1]})
    outcome, hit = {}, 0
    for c, t in zip(cases, traces):
        ends = [e for e in t["ev"] if e["e"] in ("ret", "raise", "hang")]
        applied = any(e.get("fault", "none") != "none" or e.get("kind", "none") != "none" for e in t["ev"])
        hit += applied
        if ends and applied:
            k = c["op"] + ":" + c["fault"]["kind"] + ":" + ends[0]["e"] + ("-" + ends[0].get("cls", "") if ends[0]["e"] == "raise" else "")
            outcome[k] = outcome.get(k, 0) + 1
    BLOCK_STATS.update(block_cases=len(cases), block_disturbance_applied=hit, block_outcomes=outcome,
                       block_traces_validated=val.traces, block_rejected=len(val.rejects))


def case_from_scenario(sc, rng, variant=0):
    n = sc["n"]
    od = [entry(0x2000, 0), entry(0x2007, 0, [5, 4, 3, 2, 1, 0, 9, 8, 7, 6, 5])]
    fault = {"kind": sc["kind"], "step": sc["step"]}
    if sc["kind"] == "abort":
        fault["code"] = rng.choice([0x08000000, 0x06010002, 0x05040000, 0x06020000])
    if sc["kind"] == "cs":
        fault["cs"] = rng.randrange(8)
    if sc["kind"] == "stale":
        st = list(sc["stale"])
        # the model's request multiplexer -> the harness' request multiplexer
        ridx = sc.get("reqidx", -1)
        hidx = 0x2000 if sc["op"] == "dl" else 0x2100
        if len(st) == 8 and st[0] >> 5 in (2, 3) and st[1] + 256 * st[2] == ridx:
            st[1], st[2] = hidx & 0xFF, hidx >> 8
        fault["d"] = st
    if sc["op"] == "dl":
        d = payload(rng, n)
        if variant == 2:
            # text mode of the file API: the TextIOWrapper / BufferedWriter stack closes in two steps
            d = [rng.randrange(32, 127) for _ in range(n)]
            call = {"api": "open_w", "idx": 0x2000, "sub": 0, "data": d, "size": n if sc["decl"] else -1,
                    "buffering": rng.choice([1, 7, 1024]), "chunks": [n] if n else [], "mode": "w", "force": sc["force"]}
        elif sc["decl"] and variant == 0:
            call = {"api": "download", "idx": 0x2000, "sub": 0, "data": d, "force": sc["force"]}
        else:
            call = {"api": "open_w", "idx": 0x2000, "sub": 0, "data": d, "size": n if sc["decl"] else -1,
                    "buffering": rng.choice([0, 7, 1024]), "chunks": [n] if n else [],
                    "mode": "wb", "force": sc["force"]}
    else:
        od.append(entry(0x2100, 0, payload(rng, n), acc="ro"))
        call = {"api": "upload" if variant == 0 else "open_r", "idx": 0x2100, "sub": 0,
                "buffering": rng.choice([0, 1024]), "reads": []}
    call["fault"] = fault
    style = {"small": "exp" if variant == 0 else rng.choice(["exp", "seg"]), "size_ind": True,
             "chunk": "full"}
    return {"od": od, "cod": [], "calls": [call] + [dict(c) for c in FOLLOW], "style": style,
            "seed": rng.randrange(1 << 30), "scenario": sc}


def extra_cases(rng, tier):
    """stale frames before the request, long transfers with seeded fault placement"""
    cases = []
    stale = [[0x60, 0x34, 0x12, 1, 0, 0, 0, 0], [0x43, 0x34, 0x12, 1, 9, 9, 9, 9], [0x41, 0x34, 0x12, 1, 9, 0, 0, 0],
             [0x43, 0x00, 0x21, 1, 9, 9, 9, 9], [0x43, 0x34, 0x12, 0, 9, 9, 9, 9], [0x41, 0x00, 0x21, 7, 9, 0, 0, 0],
             [0x60, 0x00, 0x20, 3, 0, 0, 0, 0],
             [0x20] + [0] * 7, [0x30] + [0] * 7, [0x01, 9, 9, 9, 9, 9, 9, 9], [0x10, 9, 0, 0, 0, 0, 0, 0],
             [0x80, 0x34, 0x12, 1, 0, 0, 4, 5]]
    for s in stale:
        for n in (0, 3, 4, 5, 9, 20):
            od = [entry(0x2000, 0), entry(0x2007, 0, [1, 2, 3, 4, 5, 6, 7, 8, 9, 10, 11])]
            calls = [{"api": "download", "idx": 0x2000, "sub": 0, "data": payload(rng, n),
                      "inject_before": [s]},
                     {"api": "upload", "idx": 0x2000, "sub": 0, "inject_before": [s, s]},
                     {"api": "upload", "idx": 0x2007, "sub": 0, "inject_before": [s]}]
            cases.append({"od": od, "cod": [], "calls": calls, "seed": 0, "style": None})
    # entries at a sub-index other than 0: a response that names the same index but sub-index 0 (the late
    # answer to an earlier request for the neighbouring entry) or another sub-index is not the answer
    for sub in (1, 2, 255):
        for n in (2, 4, 20):
            for api in ("upload", "open_r", "download"):
                for kind, other in (("stale", 0), ("stale", sub ^ 3), ("mux", 0), ("muxsub", 0)):
                    od = [entry(0x2100, sub, payload(rng, n), acc="ro" if api != "download" else "rw"), entry(0x2100, 0, [7]),
                          entry(0x2007, 0, [5, 4, 3, 2, 1, 0, 9, 8, 7, 6, 5])]
                    fault = {"kind": kind, "step": 0, "subx": sub}
                    if api == "download":
                        call = {"api": "download", "idx": 0x2100, "sub": sub, "data": payload(rng, n), "force": False}
                        fault["d"] = [0x60, 0x00, 0x21, other, 0, 0, 0, 0]
                    else:
                        call = {"api": api, "idx": 0x2100, "sub": sub, "buffering": 0, "reads": []}
                        fault["d"] = [0x43, 0x00, 0x21, other, 9, 9, 9, 9] if n != 2 else [0x4B, 0x00, 0x21, other, 9, 9, 0, 0]
                    call["fault"] = fault
                    follow = [{"api": "upload", "idx": 0x2100, "sub": sub}, {"api": "upload", "idx": 0x2007, "sub": 0}]
                    cases.append({"od": od, "cod": [], "calls": [call] + follow, "seed": rng.randrange(1 << 30),
                                  "style": {"small": "exp", "size_ind": True, "chunk": "full"}})
    reps = 150 if tier == "quick" else 3000
    for i in range(reps):
        n = rng.choice([rng.randrange(16, 200), rng.randrange(16, 1000)])
        steps = 1 + (n + 6) // 7
        kind = rng.choice(["drop", "late", "dup", "abort", "toggle", "cs", "mux", "muxsub", "stale"])
        sc = {"op": rng.choice(["dl", "ul"]), "n": n, "decl": rng.random() < 0.6,
              "force": False, "kind": kind, "step": rng.randrange(0, steps + 1),
              "stale": rng.choice(stale[:11])}
        c = case_from_scenario(sc, rng, variant=rng.randrange(2))
        if rng.random() < 0.4:
            c["server"] = "real"
        cases.append(c)
    return cases


def main():
    args = parse_args(PROP)
    v = Verdict(PROP, args)
    cfg = "MC_SdoFaults.cfg" if args.tier == "quick" else "MC_SdoFaults_thorough.cfg"
    mc = tlc.run_tlc("MC_SdoFaults", cfg, workers=args.jobs, timeout=6000)
    if not mc.ok:
        v.report({"clause": "model:" + str(mc.violated)}, f"MC_SdoFaults violates {mc.violated}",
                 {"tlc_tail": mc.stdout[-3000:]})
    scen = {}
    for b in tlc.beh_json(mc):
        scen[json.dumps(b, sort_keys=True)] = b
    scenarios = [scen[k] for k in sorted(scen)]
    rng = random.Random(args.seed * 31337 + 7)
    if args.replay:
        cases = [json.load(open(args.replay))["case"]]
        if "od" not in cases[0]:
            cases = []              # a case of the block leg (replayed there)
    else:
        cases = []
        for i, sc in enumerate(scenarios):
            cases.append(case_from_scenario(sc, rng, 0))
            cases.append(case_from_scenario(sc, rng, 1))
            # the same scenario against the library's own server (LocalNode): "the same server"
            c = case_from_scenario(sc, rng, i % 2)
            c["server"] = "real"
            cases.append(c)
            if sc["op"] == "dl":
                cases.append(case_from_scenario(sc, rng, 2))
        cases += extra_cases(rng, args.tier)
    block_leg(v, args, rng)
    results = run_cases("harness.drv_sdo_client:run_case", cases, jobs=args.jobs, timeout=30)
    traces = [r if not r.get("hang") else {"od": c["od"], "ev": [{"e": "hang", "n": 1}]}
              for c, r in zip(cases, results)]
    val = tlc.validate_traces("Trace_SdoClient", traces, cfg="Trace.cfg", jobs=args.jobs)
    for rej in val.rejects:
        case = cases[rej.index]
        sc = case.get("scenario") or {}
        ncall = sum(1 for e in traces[rej.index]["ev"][:rej.step + 1] if e["e"] == "call")
        sig = {"clause": rej.why, "kind": sc.get("kind"), "op": sc.get("op"),
               "in_followup": ncall > 1}
        v.report(sig, f"{rej.why} [scenario={sc}] event={str(rej.event)[:300]}",
                 {"case": case, "step": rej.step, "why": rej.why, "spec_state": rej.state,
                  "trace_tail": traces[rej.index]["ev"][max(0, rej.step - 4):rej.step + 1]})
    # statistics: how many disturbances actually hit, outcome classes, agreement with the model
    hit, outcome, agree, compared = 0, {}, 0, 0
    for c, t in zip(cases, traces):
        faults = [e for e in t["ev"] if e.get("e") == "x" and e.get("fault", "none") != "none"]
        if faults:
            hit += 1
        first_end = next((e for e in t["ev"] if e["e"] in ("ret", "raise", "hang")), None)
        if first_end is not None and faults:
            key = faults[0]["fault"] + ":" + (first_end["e"] if first_end["e"] != "raise" else "raise-" + first_end["cls"])
            outcome[key] = outcome.get(key, 0) + 1
            sc = c.get("scenario")
            if sc and "outcome" in sc:
                compared += 1
                if (sc["outcome"] == "ok") == (first_end["e"] == "ret"):
                    agree += 1
    kinds = sorted({s["kind"] for s in scenarios})
    cov = {"evaluations": len(cases), "distinct_nontrivial": hit,
           "rule": "a case is one (transfer kind, length, declared size, forced segmentation, disturbance kind, protocol step) "
                   "scenario reached by TLC in MC_SdoFaults (each replayed twice: download()/upload() and the file API) plus stale-before-request "
                   "and seeded long-transfer placements; non-trivial = the disturbance was actually applied to an exchange of the real client",
           "samples": [cases[0].get("scenario", {}), {"trace": traces[0]["ev"][:8]}] if cases else [],
           "states": mc.distinct, "transitions": mc.generated,
           "traces_validated_against_impl": val.traces, "model_scenarios": len(scenarios),
           "fault_kinds": kinds, "outcomes_of_disturbed_transfers": outcome,
           "model_outcome_agreement": [agree, compared], "rejected": len(val.rejects),
           "exhaustive": True, **BLOCK_STATS}
    return v.finish("fault_enumeration", cov, [
        "one disturbance per transfer; stale frames are protocol-distinguishable from a legitimate response (other multiplexer, other phase or other toggle)",
        "virtual time: an empty response queue means the time-out fires",
        "block transfers: every frame the reference block server sends (initiate response, acknowledges / segments, end frame) x {drop, abort, wrong specifier, duplicate, stale before / after, wrong multiplexer on the initiate response}, then an undisturbed transfer on the same client and server; the time-out abort frame is demanded where the client is in a request/response exchange (initiate, end); loss / bit corruption of segments is C12 / C13"])


if __name__ == "__main__":
    main_wrapper(main)
