"""C18 -- LSS fast scan finds the one unconfigured device's identity, bit for bit.

Leg A: MC_Lss -- the search algorithm against the CiA 305 slave for EVERY identity of 4 x 3 bits
(and no slave).  Leg C: the real LssMaster.fast_scan() (32-bit parts, virtual time) for identities
with every single bit set / cleared, all-zero, all-one and seeded random; inquire / configure / store
/ activate / switch services with every reply kind; every request frame, every slave reaction and
every result judged by TLC (Trace_Lss)."""
import random

from harness import tlc
from harness.common import Verdict, main_wrapper, parse_args
from harness.pool import run_cases

PROP = "C18"


def gen_cases(tier, seed):
    rng = random.Random(seed * 5 + 18)
    idents = [[0, 0, 0, 0], [0xFFFFFFFF] * 4]
    bits = range(128) if tier == "thorough" else list(range(0, 128, 9)) + [0, 31, 32, 63, 64, 95, 96, 127]
    for b in bits:
        part, k = divmod(b, 32)
        one = [0, 0, 0, 0]
        one[part] = 1 << k
        idents.append(one)
        zero = [0xFFFFFFFF] * 4
        zero[part] ^= 1 << k
        idents.append(zero)
    for _ in range(10 if tier == "quick" else 300):
        idents.append([rng.getrandbits(32) for _ in range(4)])
    cases = [{"ident": i, "ops": [{"name": "fast_scan"}]} for i in idents]
    # several devices found one after the other by the same master object
    for _ in range(6 if tier == "quick" else 100):
        ids = [[rng.getrandbits(32) for _ in range(4)] for _ in range(3)]
        ids[1][rng.randrange(4)] = 0
        cases.append({"ident": ids[0], "ops": [{"name": "fast_scan"}, {"name": "newdev", "ident": ids[1]}, {"name": "fast_scan"},
                                               {"name": "newdev", "ident": ids[2]}, {"name": "fast_scan"}]})
    cases.append({"ident": [1, 2, 3, 4], "present": False, "ops": [{"name": "fast_scan"}]})
    cases.append({"ident": [1, 2, 3, 4], "nid": 5, "ops": [{"name": "fast_scan"}], "present": False})
    # services
    replies = ["ok", "ok", "silence", "wrongcs", "sibling", "late"] + [f"err:{c}" for c in (1, 2, 255, rng.randrange(3, 255))]
    for chunk in range(8 if tier == "quick" else 60):
        ident = [rng.getrandbits(32) for _ in range(4)]
        # every other sequence of services follows a fast scan by the same master object
        nid = 255 if chunk % 2 else rng.choice([255, 5])
        ops = [{"name": "fast_scan"}] if chunk % 2 else []
        for _ in range(40):
            name = rng.choice(["switch_global", "configure_node_id", "configure_bit_timing", "store", "activate",
                               "inquire_node_id", "inquire_address", "switch_selective"])
            op = {"name": name, "reply": rng.choice(replies)}
            if name == "switch_global":
                op["args"] = [rng.choice([0, 1])]
            elif name == "configure_node_id":
                op["args"] = [rng.randrange(256)]
            elif name == "configure_bit_timing":
                op["args"] = [rng.randrange(256)]
            elif name == "activate":
                op["args"] = [rng.randrange(65536)]
            elif name == "inquire_address":
                op["args"] = [rng.choice([0x5A, 0x5B, 0x5C, 0x5D])]
            elif name == "switch_selective":
                op["ids"] = ident if rng.random() < 0.6 else [rng.getrandbits(32) for _ in range(4)]
                op["reply"] = rng.choice(["ok", "ok", "silence"])
            ops.append(op)
            if len(ops) % 7 == 0:
                # the identify services: vendor, product, revision low / high, serial low / high -- all different
                ids6 = [ident[0], ident[1], ident[2] & 0xFFFF0000, ident[2] | 0xFFFF, ident[3] & 0xFFFFFF00, ident[3] | 0xFF]
                ops.append({"name": "identify", "ids": ids6 if len(ops) % 2 else [(x * 2654435761 + len(ops)) & 0xFFFFFFFF for x in ids6],
                            "reply": "ok"})
                ops.append({"name": "identify_nc", "reply": "ok"})
        cases.append({"ident": ident, "nid": nid, "ops": ops})
    # a fast scan that finds nobody (the only device present is a configured one, which does not take part),
    # then services of the same master object against that device
    for _ in range(6 if tier == "quick" else 80):
        ident = [rng.getrandbits(32) for _ in range(4)]
        ops = [{"name": "fast_scan"}]
        for _ in range(10):
            name = rng.choice(["configure_node_id", "configure_bit_timing", "store", "inquire_node_id", "inquire_address",
                               "switch_selective", "switch_global"])
            op = {"name": name, "reply": rng.choice(["ok", "ok", "ok", "silence", "err:1"])}
            if name in ("configure_node_id", "configure_bit_timing"):
                op["args"] = [rng.randrange(256)]
            elif name == "switch_global":
                op["args"] = [rng.choice([0, 1])]
            elif name == "inquire_address":
                op["args"] = [rng.choice([0x5A, 0x5B, 0x5C, 0x5D])]
            elif name == "switch_selective":
                op["ids"] = ident
                op["reply"] = "ok"
            ops.append(op)
        cases.append({"ident": ident, "nid": rng.choice([5, 1, 127]), "ops": ops})
    # selective switch and identity inquiry for boundary identities (all-one, all-zero, single parts all-one)
    for ident in ([0xFFFFFFFF] * 4, [0] * 4, [0xFFFFFFFF, 1, 2, 3], [1, 0xFFFFFFFF, 0x80000000, 0x7FFFFFFF],
                  [0xFF000000, 0x00FF0000, 0x0000FF00, 0x000000FF], [rng.getrandbits(32) | 0xFF000000 for _ in range(4)]):
        ops = [{"name": "switch_selective", "ids": list(ident), "reply": "ok"}]
        ops += [{"name": "inquire_address", "args": [cs], "reply": "ok"} for cs in (0x5A, 0x5B, 0x5C, 0x5D)]
        cases.append({"ident": list(ident), "ops": ops})
    # configure node ids 0..255 and bit timing indexes 0..255 with an accepting slave
    ops = [{"name": "configure_node_id", "args": [n], "reply": "ok"} for n in range(256)]
    ops += [{"name": "configure_bit_timing", "args": [n], "reply": "ok"} for n in range(256)]
    cases.append({"ident": [9, 8, 7, 6], "ops": ops})
    return cases


def main():
    args = parse_args(PROP)
    v = Verdict(PROP, args)
    mc = tlc.run_tlc("MC_Lss", "MC_Lss.cfg", workers=args.jobs, timeout=1200)
    if not mc.ok:
        v.report({"clause": "model:" + str(mc.violated)}, f"MC_Lss violates {mc.violated}", {"tlc_tail": mc.stdout[-3000:]})
    if args.replay:
        import json
        cases = [json.load(open(args.replay))["case"]]
    else:
        cases = gen_cases(args.tier, args.seed)
    results = run_cases("harness.drv_lss:run_case", cases, jobs=args.jobs, timeout=120)
    if any(r.get("hang") for r in results):
        raise RuntimeError("driver hang")
    val = tlc.validate_traces("Trace_Lss", results, cfg="Trace.cfg", jobs=args.jobs)
    for rej in val.rejects:
        ev = rej.event or {}
        sig = {"clause": rej.why, "ev": ev.get("e"), "name": ev.get("name")}
        v.report(sig, f"{rej.why} [ident={cases[rej.index]['ident']}] event={str(ev)[:400]} spec={rej.state[:200]}",
                 {"case": cases[rej.index], "step": rej.step, "why": rej.why, "spec_state": rej.state[:2000], "event": ev})
    nscan = sum(1 for c in cases if c["ops"][0]["name"] == "fast_scan")
    cov = {"states": mc.distinct, "transitions": mc.generated, "traces_validated_against_impl": val.traces,
           "samples": [results[min(2, len(results) - 1)]["ev"][:3] + results[min(2, len(results) - 1)]["ev"][-2:]], "trace_events": val.events,
           "fast_scans": nscan, "service_calls": sum(len(c["ops"]) for c in cases) - nscan, "rejected": len(val.rejects)}
    return v.finish("model_checking", cov, [
        "slave simulator is untrusted: its fast-scan reactions are judged by the CiA 305 state machine in TLA+",
        "virtual time (the library's sleeps and 0.5 s time-outs cost nothing)"])


if __name__ == "__main__":
    main_wrapper(main)
