"""C12 -- SDO block download delivers exactly the payload or fails visibly.

Leg A: MC_SdoBlock (TLC): spec-legal client x reference server x every loss pattern (<= 2 losses
of segments or acknowledges) for small payloads and block-size sequences.
Leg C: the real BlockDownloadStream against the reference block server (virtual time): undisturbed
transfers over lengths / block-size sequences / CRC settings / write chunkings, every single lost
segment position, seeded multi-loss and acknowledge loss; traces validated by TLC (Trace_SdoBlock:
sequence numbers, payload bytes, last flag, retransmission start, end frame n + CRC recomputed in
TLA+, commit = payload on normal return)."""
import random

from harness import tlc
from harness.common import Verdict, main_wrapper, parse_args
from harness.pool import run_cases

PROP = "C12"
BLKSETS = [[127], [1], [2], [3, 5], [5, 1, 127, 2], [7], [127, 1], [4, 4, 9], [126], [64, 3]]


def pay(rng, n):
    m = rng.randrange(3)
    if m == 0:
        return [(i * 13 + 5) % 256 for i in range(n)]
    return [rng.randrange(256) for _ in range(n)]


def chunks(rng, n):
    if rng.random() < 0.5:
        return [n]
    out = []
    while n > 0:
        k = min(n, rng.choice([1, 3, 7, 8, 20, 100, 1000]))
        out.append(k)
        n -= k
    return out


def gen_cases(tier, seed):
    rng = random.Random(seed * 2654435761 % (1 << 31) + 12)
    cases = []

    def mk(n, **kw):
        c = {"op": "bdl", "data": pay(rng, n), "blks": rng.choice(BLKSETS), "crc": rng.random() < 0.7,
             "srvcrc": rng.random() < 0.8, "buffering": rng.choice([1024, 1024, 7, 0]),
             "chunks": [n], "seed": rng.randrange(1 << 30)}
        c.update(kw)
        if c["buffering"] == 0 and not c.get("raw_reuse"):
            c["chunks"] = None     # raw stream: one write per 7 bytes is the caller's job
            c["buffering"] = 7
        cases.append(c)
    # undisturbed: every length 1..64, all block-size sets on boundary lengths, long payloads
    for n in range(1, 65):
        mk(n)
        mk(n, crc=True, srvcrc=True, blks=[rng.randrange(1, 128) for _ in range(4)])
    for blks in BLKSETS:
        for n in (6, 7, 8, 13, 14, 15, 21, 35, 70):
            mk(n, blks=blks, crc=True, srvcrc=True)
            mk(n, blks=blks, crc=False)
    # the payload handed to the (buffered) file object in several write() calls: pieces small enough
    # for io.BufferedWriter to keep what the raw stream does not take yet (pieces <= buffer - 7)
    for n in (30, 100, 889, 890, 2000, 3000):
        for piece in (1, 3, 13, 100, 700, 1000):
            if piece >= n:
                continue
            for crc in (True, False):
                mk(n, crc=crc, srvcrc=True, buffering=rng.choice([1024, 8192]),
                   chunks=[piece] * (n // piece) + ([n % piece] if n % piece else []))
    longs = [888, 889, 890, 1777, 1778, 1779, 2000] + [7 * k + d for k in (100, 254) for d in (-1, 0, 1)]
    longs += [10000] if tier == "quick" else [7 * k + d for k in range(150, 1430, 61) for d in (-1, 0, 1)] + [9999, 10000, 10001]
    for n in longs:
        mk(n, crc=True, srvcrc=True)
    # every single lost segment position (lengths <= 200 thorough, sampled in quick)
    for n in ([8, 15, 22, 50, 64, 100, 200] if tier == "quick" else list(range(8, 201, 3))):
        nseg = (n + 6) // 7
        for blks in ([[3], [127], [5, 2]] if tier == "quick" else [[3], [127], [5, 2], [1], [2, 7, 1]]):
            for k in range(1, nseg + 1):
                mk(n, blks=blks, lose_seg=[k], crc=True, srvcrc=True, buffering=1024, chunks=[n])
    # unbuffered stream fed from one reused chunk buffer, with and without a loss, CRC on and off
    for n in (7, 14, 15, 30, 64, 100):
        nseg = (n + 6) // 7
        for blks in ([127], [3], [2, 5]):
            for crc in (True, False):
                mk(n, blks=blks, crc=crc, srvcrc=True, buffering=0, raw_reuse=True)
                for k in range(1, nseg):
                    mk(n, blks=blks, crc=crc, srvcrc=True, buffering=0, raw_reuse=True, lose_seg=[k])
    # buffered stream whose buffer is smaller than a block (several flushes per block), 7-byte writes
    for n in (42, 63, 100):
        nseg = (n + 6) // 7
        for buf in (14, 21):
            for blks in ([3], [4, 127]):
                for k in range(1, nseg):
                    mk(n, blks=blks, crc=(k % 2 == 0), srvcrc=True, buffering=buf,
                       chunks=[7] * nseg, lose_seg=[k])
    # a second loss while the first one is being repaired (frames are numbered as sent)
    for n in (100, 700):
        for b in (3, 8):
            for a in range(1, b + 1):
                for second in range(b + 1, 2 * b + 2):
                    # (a server that does not compare the committed length with the declared size:
                    #  CiA 301 leaves that check to the server)
                    mk(n, blks=[b], crc=(a + second) % 2 == 0, srvcrc=True, buffering=1024, chunks=[n],
                       lose_seg=[a, second], size_check=(a % 2 == 0))
    # seeded multi-loss, acknowledge loss
    for _ in range(150 if tier == "quick" else 2500):
        n = rng.randrange(8, 300)
        nseg = (n + 6) // 7
        kw = {}
        if rng.random() < 0.7:
            kw["lose_seg"] = sorted(rng.sample(range(1, nseg + 4), rng.randrange(1, 4)))
        if rng.random() < 0.4:
            kw["lose_ack"] = [rng.randrange(1, 6)]
        mk(n, **kw)
    return cases


def main():
    args = parse_args(PROP)
    v = Verdict(PROP, args)
    mc = tlc.run_tlc("MC_SdoBlock", "MC_SdoBlock.cfg" if args.tier == "quick" else
                     "MC_SdoBlock_thorough.cfg", workers=args.jobs, timeout=3000)
    if not mc.ok:
        v.report({"clause": "model:" + str(mc.violated)}, f"MC_SdoBlock violates {mc.violated}",
                 {"tlc_tail": mc.stdout[-3000:]})
    if args.replay:
        import json
        cases = [json.load(open(args.replay))["case"]]
    else:
        cases = gen_cases(args.tier, args.seed)
    results = run_cases("harness.drv_sdo_block:run_case", cases, jobs=args.jobs, timeout=60)
    traces = [r if not r.get("hang") else {"value": [], "srvcrc": True, "ev": [{"e": "hang", "n": 1}]}
              for r in results]
    val = tlc.validate_traces("Trace_SdoBlock", traces, cfg="Trace.cfg", jobs=args.jobs)
    for rej in val.rejects:
        c = cases[rej.index]
        nseg = (len(c["data"]) + 6) // 7
        losses = c.get("lose_seg", [])
        sig = {"clause": rej.why, "losses": len(losses), "ack_loss": bool(c.get("lose_ack")),
               "hang": bool(results[rej.index].get("hang"))}
        v.report(sig, f"{rej.why} [len={len(c['data'])} blks={c['blks']} crc={c['crc']}/{c['srvcrc']} "
                      f"lose_seg={losses} lose_ack={c.get('lose_ack')} buffering={c['buffering']}] event={str(rej.event)[:200]}",
                 {"case": c, "step": rej.step, "why": rej.why, "spec_state": rej.state,
                  "trace_tail": traces[rej.index]["ev"][max(0, rej.step - 4):rej.step + 1]})
    kinds = {"undisturbed": 0, "single_loss": 0, "multi_or_ack_loss": 0}
    outcome = {}
    for c, t in zip(cases, traces):
        nl = len(c.get("lose_seg", [])) + len(c.get("lose_ack", []))
        kinds["undisturbed" if nl == 0 else "single_loss" if nl == 1 and not c.get("lose_ack") else "multi_or_ack_loss"] += 1
        end = t["ev"][-1]["e"]
        key = ("loss" if nl else "clean") + ":" + end
        outcome[key] = outcome.get(key, 0) + 1
    cov = {"states": mc.distinct, "transitions": mc.generated,
           "traces_validated_against_impl": val.traces, "samples": [traces[min(1, len(traces) - 1)]["ev"][:6]],
           "trace_events": val.events, "cases": kinds, "outcomes": outcome, "rejected": len(val.rejects)}
    return v.finish("model_checking", cov, [
        "reference block server simulator is untrusted: its initiate response, acknowledges and end decision are judged by SdoBlock operators",
        "a single loss must be repaired only when it hits a sub-block that does not contain the last segment (property text)",
        "virtual time: the server's own time-out acknowledge fires when the client starts waiting"])


if __name__ == "__main__":
    main_wrapper(main)
