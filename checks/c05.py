"""C05 -- PDO variables occupy exactly their mapped bits.

Leg A: MC_PdoBits (reduced family, exhaustive: WriteOk action property).  Leg B: layouts generated
by TLC (simulation of the same model over the full type family, <= 64 bits) are built with the real
PdoMap.add_variable.  Leg C: per layout arbitrary frames, all 2^len values for fields <= 12 bits,
boundary / random values above; frames after writes and values read judged by TLC bit by bit
(Trace_PdoBits)."""
import json
import random
import struct

from harness import enc, tlc
from harness.common import Verdict, main_wrapper, parse_args
from harness.pool import run_cases

PROP = "C05"


def field_values(rng, t, n, tier):
    """values to write into a field of type t and bit length n"""
    if t == enc.BOOLEAN:
        return [{"bool": True}, {"bool": False}]
    if t in (enc.REAL32, enc.REAL64):
        pats = [0, 1, (1 << n) - 1, 1 << (n - 1)] + [rng.getrandbits(n) for _ in range(4)]
        out = []
        for p in pats:
            f = struct.unpack("<f" if n == 32 else "<d", p.to_bytes(n // 8, "little"))[0]
            if f == f:
                out.append({"hex": f.hex()})
        return out
    signed = enc.INT[t][1]
    lo, hi = (-(1 << (n - 1)), (1 << (n - 1)) - 1) if signed else (0, (1 << n) - 1)
    if n <= (12 if tier == "thorough" else 6):
        vals = list(range(lo, hi + 1))
    else:
        vals = sorted({lo, lo + 1, -1 if signed else 1, 0, 1, hi - 1, hi, rng.randint(lo, hi), rng.randint(lo, hi),
                       rng.randint(lo, hi)})
        if n <= 12:
            vals += [rng.randint(lo, hi) for _ in range(12)]
    # values beyond the field but inside the type (low bits are written), and outside the type
    tlo, thi = enc.int_range(t)
    if (lo, hi) != (tlo, thi):
        vals += [thi, tlo, hi + 1, lo - 1 if signed else hi + 2]
    vals += [thi + 1, tlo - 1]
    return [{"int": x} for x in vals]


def ops_for(rng, lay, tier):
    nbytes = (sum(n for _, n in lay) + 7) // 8
    ops = []
    frames = [[0] * nbytes, [255] * nbytes] + [[rng.randrange(256) for _ in range(nbytes)] for _ in range(2)]
    for k, fr in enumerate(frames):
        # contents installed by assignment, by reception from the bus, or in place
        ops.append({"op": "setframe", "d": fr, "how": ["assign", "rx", "inplace", "rx"][k % 4]})
        for i in range(1, len(lay) + 1):
            ops.append({"op": "read", "i": i})
        if k:
            # the value each variable was given last before the frame changed is written once more
            for i in range(1, len(lay) + 1):
                ops.append({"op": "write", "i": i, "v": again(lay[i - 1][0]), "how": "map"})
                ops.append({"op": "read", "i": i})
        order = list(range(1, len(lay) + 1))
        rng.shuffle(order)
        for i in order:
            t, n = lay[i - 1]
            vals = field_values(rng, t, n, tier)
            if len(vals) > 24:
                keep = vals[:2] + vals[-6:] + rng.sample(vals[2:-6], 16) if fr is not frames[2] else vals
                vals = keep
            for val in vals:
                ops.append({"op": "write", "i": i, "v": val, "how": "node" if rng.random() < 0.2 else "map"})
                ops.append({"op": "read", "i": i, "how": "node" if rng.random() < 0.2 else "map"})
                j = rng.randrange(1, len(lay) + 1)
                ops.append({"op": "read", "i": j})
            ops.append({"op": "write", "i": i, "v": again(t), "how": "map"})
    return ops


def again(t):
    """the value a variable of type t holds when a new frame arrives (and is given again right after it)"""
    if t == enc.BOOLEAN:
        return {"bool": True}
    if t in (enc.REAL32, enc.REAL64):
        return {"hex": (1.5).hex()}
    return {"int": 1}


def hand_layouts():
    U8, I8, B1, U16, I16, U32, I32, U64, I64, R32, R64 = 0x5, 0x2, 0x1, 0x6, 0x3, 0x7, 0x4, 0x1B, 0x15, 0x8, 0x11
    lays = [[(B1, 1)] * 8, [(U8, 4), (I8, 4)], [(I8, 3), (U8, 5), (I16, 16)], [(B1, 1), (U16, 16), (I8, 7)],
            [(B1, 1), (R32, 32)], [(U8, 4), (R64, 32 + 32)][:1] + [(R32, 32)], [(I8, 1), (I8, 2), (I8, 3), (I8, 4), (I8, 5), (I8, 6), (I8, 7)],
            [(U8, 7), (U8, 7), (U8, 7), (U8, 7), (U8, 7), (U8, 7), (U8, 7), (U8, 7)], [(B1, 1), (I64, 32 + 31)][:1] + [(I32, 32), (I8, 7), (U16, 16), (I8, 8)],
            [(U8, 8), (I16, 16), (U32, 32), (I8, 8)], [(I64, 64)], [(U64, 64)], [(R64, 64)], [(U8, 3), (0x16, 24), (0x10, 24), (I8, 5)],
            [(I8, 4), (0x12, 40), (U8, 4)], [(U8, 1), (0x19, 48), (I8, 7)], [(B1, 1), (0x14, 56), (I8, 7)], [(U8, 2), (0x1A, 56), (U8, 6)],
            # wider objects mapped with fewer bits than they have (beyond the listed quantifier: partial mappings)
            [(U16, 12), (U8, 4), (U16, 16), (U8, 3)], [(I16, 12), (I8, 4)], [(U8, 4), (U16, 12), (U32, 20), (U8, 4)]]
    return [[list(x) for x in l] for l in lays]


def main():
    args = parse_args(PROP)
    v = Verdict(PROP, args)
    mc = tlc.run_tlc("MC_PdoBits", "MC_PdoBits.cfg", workers=args.jobs, timeout=1200)
    if not mc.ok:
        v.report({"clause": "model:" + str(mc.violated)}, f"MC_PdoBits violates {mc.violated}", {"tlc_tail": mc.stdout[-3000:]})
    gen = tlc.simulate("MC_PdoBits", "Gen_PdoBits.cfg", num=150 if args.tier == "quick" else 3000, depth=10, seed=args.seed)
    lays = {json.dumps(b): b for b in tlc.beh_json(gen)}
    lays = [lays[k] for k in sorted(lays)] + hand_layouts()
    rng = random.Random(args.seed * 3 + 5)
    if args.replay:
        cases = [json.load(open(args.replay))["case"]]
    else:
        cases = [{"lay": l, "ops": ops_for(rng, [tuple(x) for x in l], args.tier), "implicit_len": rng.random() < 0.5,
                  # every third map held a longer mapping (the first objects, full length) before
                  "premap": list(range(min(len(l), 8))) + [0] if k % 3 == 2 and sum(n for _, n in l) < 40 else None,
                  # ... in which the 8-bit objects were sub-byte fields (every other such map)
                  "premap_short": k % 2 == 0}
                 for k, l in enumerate(lays)]
    if not args.replay:
        # maps that held the same 8-bit objects as sub-byte fields before and hold them in full now
        for l in ([[0x5, 8], [0x2, 8], [0x6, 16]], [[0x2, 8]], [[0x1, 1], [0x5, 8], [0x2, 8]], [[0x5, 8], [0x3, 16], [0x2, 8], [0x5, 8]]):
            for implicit in (True, False):
                cases.append({"lay": l, "ops": ops_for(rng, [tuple(x) for x in l], args.tier), "implicit_len": implicit,
                              "premap": list(range(len(l))), "premap_short": True})
    results = run_cases("harness.drv_pdobits:run_case", cases, jobs=args.jobs, timeout=120)
    if any(r.get("hang") for r in results):
        raise RuntimeError("driver hang")
    val = tlc.validate_traces("Trace_PdoBits", results, cfg="Trace.cfg", jobs=args.jobs)
    for rej in val.rejects:
        ev = rej.event or {}
        lay = cases[rej.index]["lay"]
        i = ev.get("i", 1)
        t, n = lay[i - 1]
        off = sum(x[1] for x in lay[:i - 1])
        kind = "real" if t in (0x8, 0x11) else "bool" if t == 1 else "signed" if enc.INT[t][1] else "unsigned"
        sig = {"clause": rej.why, "ev": ev.get("e"), "kind": kind, "aligned": off % 8 == 0 and n % 8 == 0,
               "subbyte": n < 8, "crosses_byte": (off % 8) + n > 8 and n <= 8}
        v.report(sig, f"{rej.why} [field {i} type=0x{t:X} len={n} off={off} layout={lay}] event={str(ev)[:300]} frame={rej.state[:200]}",
                 {"case": {"lay": lay, "ops": cases[rej.index]["ops"][:0], "implicit_len": cases[rej.index].get("implicit_len", True),
                           "premap": cases[rej.index].get("premap"), "premap_short": cases[rej.index].get("premap_short", False)},
                  "full_ops": len(cases[rej.index]["ops"]), "step": rej.step, "why": rej.why, "spec_state": rej.state, "event": ev})
    cov = {"states": mc.distinct, "transitions": mc.generated, "traces_validated_against_impl": val.traces,
           "samples": [{"lay": cases[0]["lay"], "events": results[0]["ev"][:6]}], "trace_events": val.events,
           "layouts": len(cases), "tlc_generated_layouts": len(lays) - len(hand_layouts()), "rejected": len(val.rejects)}
    return v.finish("model_checking", cov, [
        "objects are mapped with their own bit length; sub-byte lengths only for BOOLEAN (1 bit) and the 8-bit types (property text)",
        "values are integers of the object's type; values beyond the field but inside the type must have their low bits written"])


if __name__ == "__main__":
    main_wrapper(main)
