"""C06 -- SDO server serves and stores object values exactly, in conformant CiA 301 frames.

Leg A: MC_SdoCore (shared with C01/C06).  Leg C: scripted requests (valid transfers, restarts,
garbage) against real LocalNodes over random object dictionaries; every response, every change of
data_store and every write-callback notification is judged by TLC (Trace_SdoServer / SrvJudge)."""
import random

from checks import sdo_srv
from harness import tlc
from harness.common import Verdict, main_wrapper, parse_args

PROP = "C06"


DEFINED_CODES = [0x05030000, 0x05040000, 0x05040001, 0x05040002, 0x05040003, 0x05040004, 0x05040005,
                 0x06010000, 0x06010001, 0x06010002, 0x06020000, 0x06040041, 0x06040042, 0x06040043,
                 0x06040047, 0x06060000, 0x06070010, 0x06070012, 0x06070013, 0x06090011, 0x06090030,
                 0x06090031, 0x06090032, 0x06090036, 0x060A0023, 0x08000000, 0x08000020, 0x08000021,
                 0x08000022, 0x08000023, 0x08000024]


def client_side(args, rng):
    """the real SdoClient must raise SdoAbortedError exposing exactly the received code"""
    from checks.c01 import entry, payload
    from harness.pool import run_cases
    codes = list(DEFINED_CODES) + [0, 1, 0x7FFFFFFF, 0x80000000, 0xFFFFFFFF]
    codes += [rng.getrandbits(32) for _ in range(2400 if args.tier == "quick" else 12000)]
    cases = []
    per = 40
    for i in range(0, len(codes), per):
        calls = []
        for code in codes[i:i + per]:
            kind = rng.choice(["upload", "download", "dl_last", "open_r", "dl_close", "dl_empty"])
            n = rng.choice([1, 4, 5, 8, 15])
            if kind == "upload":
                calls.append({"api": "upload", "idx": 0x2000, "sub": 0,
                              "fault": {"kind": "refuse", "step": 0, "code": code}})
            elif kind == "open_r":
                calls.append({"api": "open_r", "idx": 0x2000, "sub": 0, "buffering": rng.choice([0, 8, 1024]),
                              "reads": [], "fault": {"kind": "refuse", "step": 0, "code": code}})
            elif kind == "download":
                calls.append({"api": "download", "idx": 0x2000, "sub": 0, "data": payload(rng, n),
                              "fault": {"kind": "refuse", "step": 0, "code": code}})
            elif kind == "dl_close":
                # stream of unknown size: the refusal arrives for the empty closing segment
                n = rng.choice([1, 6, 7, 8, 14])
                calls.append({"api": "open_w", "idx": 0x2000, "sub": 0, "data": payload(rng, n), "size": -1,
                              "buffering": rng.choice([0, 7, 1024]), "chunks": [n], "mode": "wb",
                              "fault": {"kind": "refuse", "step": 1 + (n + 6) // 7, "code": code}})
            elif kind == "dl_empty":
                calls.append({"api": "download", "idx": 0x2000, "sub": 0, "data": [],
                              "fault": {"kind": "refuse", "step": rng.choice([0, 1]), "code": code}})
            else:
                # refusal reported on the last segment, as the library's own server does
                n = rng.choice([5, 7, 8, 14, 15])
                calls.append({"api": "download", "idx": 0x2000, "sub": 0, "data": payload(rng, n),
                              "fault": {"kind": "refuse", "step": 1 + (n + 6) // 7 - 1 + 0, "code": code}})
        cases.append({"od": [entry(0x2000, 0, [1, 2, 3, 4, 5, 6, 7, 8, 9])], "cod": [], "calls": calls,
                      "style": {"small": "exp", "size_ind": True, "chunk": "full"}, "seed": 0})
    # genuine refusals by the reference server (ro / wo / missing / wrong length), between successes
    for i in range(60 if args.tier == "quick" else 600):
        od = [entry(0x2000, 0, [1, 2]), entry(0x2001, 0, [1, 2, 3, 4], num=True, size=4, acc="ro"),
              entry(0x2002, 0, None, acc="wo"), entry(0x2003, 1, [9] * 9, acc="const"),
              entry(0x2004, 0, [0, 0], num=True, size=2)]
        calls = []
        for _ in range(rng.randrange(2, 7)):
            idx, sub = rng.choice([(0x2000, 0), (0x2001, 0), (0x2002, 0), (0x2003, 1), (0x2003, 2),
                                   (0x2004, 0), (0x3000, 0)])
            if rng.random() < 0.5:
                calls.append({"api": rng.choice(["upload", "open_r"]), "idx": idx, "sub": sub,
                              "buffering": 0, "reads": []})
            else:
                calls.append({"api": "download", "idx": idx, "sub": sub,
                              "data": payload(rng, rng.choice([0, 1, 2, 3, 4, 5, 9])),
                              "force": rng.random() < 0.3})
        cases.append({"od": od, "cod": [], "calls": calls, "seed": rng.randrange(1 << 30),
                      "style": {"small": rng.choice(["exp", "seg"]), "size_ind": True, "chunk": "full",
                                "refuse": rng.choice(["init", "end"])}})
    results = run_cases("harness.drv_sdo_client:run_case", cases, jobs=args.jobs, timeout=30)
    traces = [r if not r.get("hang") else {"od": c["od"], "ev": [{"e": "hang", "n": 1}]}
              for c, r in zip(cases, results)]
    val = tlc.validate_traces("Trace_SdoClient", traces, cfg="Trace.cfg", jobs=args.jobs)
    return cases, traces, val


def main():
    args = parse_args(PROP)
    v = Verdict(PROP, args)
    mc = tlc.run_tlc("MC_SdoCore", "MC_SdoCore.cfg" if args.tier == "quick" else
                     "MC_SdoCore_thorough.cfg", workers=args.jobs, timeout=3000)
    if not mc.ok:
        v.report({"clause": "model:" + str(mc.violated)}, f"MC_SdoCore violates {mc.violated}",
                 {"tlc_tail": mc.stdout[-3000:]})
    rng = random.Random(args.seed * 104729 + 2)
    if args.replay:
        import json
        cases = [json.load(open(args.replay))["case"]]
    else:
        cases = sdo_srv.length_sweep_cases(rng, 64)
        cases += [sdo_srv.gen_case(rng, "refuse") for _ in range(500 if args.tier == "quick" else 6000)]
        cases += sdo_srv.long_cases(rng, [888, 889, 890, 2000, 10000] if args.tier == "quick" else
                                    [7 * k + d for k in range(100, 1430, 133) for d in (-1, 0, 1)] + [10000])
    traces, val = sdo_srv.run_and_validate(cases, args.jobs)
    ccases, ctraces, cval = client_side(args, rng)
    for rej in cval.rejects:
        case = ccases[rej.index]
        v.report({"clause": rej.why, "side": "client"},
                 f"client side: {rej.why}: {str(rej.event)[:300]}",
                 {"case": case, "step": rej.step, "why": rej.why, "spec_state": rej.state,
                  "trace_tail": ctraces[rej.index]["ev"][max(0, rej.step - 3):rej.step + 1]})
    for rej in val.rejects:
        sig = sdo_srv.classify(traces[rej.index], rej)
        v.report(sig, f"{rej.why}: request/response {str(rej.event)[:400]}",
                 {"case": cases[rej.index], "step": rej.step, "why": rej.why,
                  "spec_state": rej.state, "trace_tail": traces[rej.index]["ev"][max(0, rej.step - 3):rej.step + 1]})
    nreq = sum(len(t["ev"]) for t in traces)
    cov = {"states": mc.distinct, "transitions": mc.generated,
           "traces_validated_against_impl": val.traces + cval.traces,
           "samples": [{"trace_prefix": traces[-min(7, len(traces))]["ev"][:5], "od": traces[-min(7, len(traces))]["od"][:3]}],
           "requests_judged": nreq, "client_side_traces": cval.traces,
           "client_side_abort_codes": sum(len(c["calls"]) for c in ccases), "trace_states": val.states, "rejected": len(val.rejects),
           "value_lengths": "0..64 exhaustively for every data-type class and value source, to 10^4 sampled"}
    return v.finish("model_checking", cov, [
        "requests are inputs (any frame sequence); responses judged by SdoCore.SrvJudge in TLC",
        "header value bytes come from the harness' independent encoder (harness/enc.py), which the C04 check compares with the TLA+ Codec",
        "undefined members of arrays and sub-index != 0 of VAR objects: see DESIGN.md"])


if __name__ == "__main__":
    main_wrapper(main)
