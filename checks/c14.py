"""C14 -- exporting a dictionary to EDS/DCF and importing it again loses nothing.

Leg A: MC_Eds (reference semantics over the feature space).  Leg C: dictionaries built in code and
dictionaries imported from generated text are exported as EDS and DCF to a path / a stream / stdout;
(i) the three destinations give the same document, (ii) the exported text read with the standard
library's configparser MEANS the original dictionary, (iii) the real re-import equals the original;
all three judged by TLC (Table_Eds / Eds.tla)."""
import json
import random

from harness import tlc
from harness.common import Verdict, main_wrapper, parse_args
from harness.pool import run_cases

PROP = "C14"


def main():
    args = parse_args(PROP)
    v = Verdict(PROP, args)
    mc = tlc.run_tlc("MC_Eds", "MC_Eds.cfg", workers=1, timeout=1200)
    if not mc.ok:
        v.report({"clause": "model:" + str(mc.violated)}, f"MC_Eds violates {mc.violated}", {"tlc_tail": mc.stdout[-3000:]})
    rng = random.Random(args.seed * 29 + 14)
    if args.replay:
        cases = [json.load(open(args.replay))["case"]]
    else:
        cases = [{"seed": rng.randrange(1 << 30), "nobj": rng.randrange(3, 14), "source": "code" if i % 3 else "text"}
                 for i in range(150 if args.tier == "quick" else 3000)]
    results = run_cases("harness.drv_eds:export_case", cases, jobs=args.jobs, timeout=120)
    if any(r.get("hang") for r in results):
        raise RuntimeError("driver hang")
    rows, owner = [], []
    for ci, r in enumerate(results):
        for row in r["rows"]:
            if row["kind"] == "crash":
                v.report({"clause": "export / re-import raised", "repr": row["repr"][:50]}, f"{row['repr']}", {"case": cases[ci]})
                continue
            rows.append(row)
            owner.append(ci)
    bad, _ = tlc.check_table("Table_Eds", rows, jobs=args.jobs)
    for idx, why in bad:
        r = rows[idx]
        neg = False
        if r["kind"] in ("rt",) and r["b"].get("k") != "none":
            neg = any(m["def"].get("neg") or m["val"].get("neg") for m in r["a"]["members"])
        if r["kind"] == "obj":
            neg = any(m["def"].get("neg") or m["val"].get("neg") for m in r["o"]["members"])
        sig = {"clause": why, "kind": r["kind"], "doc_type": r.get("doc_type"), "negative_value": bool(neg)}
        v.report(sig, f"{why}: {json.dumps(r)[:700]}", {"case": cases[owner[idx]], "row": r})
    kinds = {}
    for r in rows:
        kinds[r["kind"]] = kinds.get(r["kind"], 0) + 1
    cov = {"states": mc.distinct, "transitions": mc.generated, "traces_validated_against_impl": len(cases),
           "samples": [{"row_kind": rows[0]["kind"], "row": json.loads(json.dumps(rows[0]))["a"][:2] if rows[0]["kind"] == "same" else {}}],
           "rows_judged": kinds, "dictionaries": len(cases), "bad_rows": len(bad)}
    return v.finish("model_checking", cov, [
        "round trip compares kinds, names, sub-indices, data/access types, PDO mapping, defaults, limits, storage, factor/unit/description, device info, comments (DCF: also parameter values, bit rate, node id); the $NODEID relative flag is not part of the property",
        "indexes in the communication / manufacturer / profile areas only; generated names unique",
        "the independent reader of exported text uses only the standard library"])


if __name__ == "__main__":
    main_wrapper(main)
