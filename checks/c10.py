"""C10 -- frames reach exactly the handlers subscribed at that moment.

Leg A: MC_Net -- all histories up to a depth over a small pool; NoDup, NoStaleHandler,
       LiveHandlersPresent, LssKept.
Leg B: TLC-generated behaviours (simulation of the same model, deeper) replayed on a real Network,
       a probe frame after every step.
Leg C: seeded random operation sequences (hundreds of steps), the scanner / frame-format rule over
       every 11-bit id and sampled 29-bit ids; every step judged by TLC against Trace_Net."""
import json
import random

from harness import tlc
from harness.common import Verdict, main_wrapper, parse_args
from harness.pool import run_cases

PROP = "C10"


def handler_ids(nodes, xsdo=None):
    ids = {0}
    for nid, txs in (xsdo or {}).items():
        if nid in nodes:
            ids |= set(txs)
    for nid, kind in nodes.items():
        ids |= {0x580 + nid, 0x700 + nid, 0x80 + nid} if kind == "remote" else {0x600 + nid}
    return ids


def probe(rng, cid, ts):
    return {"op": "notify", "id": cid, "d": [rng.randrange(256) for _ in range(8)], "ts": ts}


def from_behaviour(beh, rng):
    ops, ts = [], 100
    for h in beh:
        if h["op"] == "add":
            ops.append({"op": "add", "nid": h["nid"], "kind": h["kind"], "how": rng.choice(["add", "setitem", "int"])})
        elif h["op"] == "addsdo":
            ops.append({"op": "addsdo", "nid": h["nid"], "tx": h["id"]})
        elif h["op"] == "remove":
            ops.append({"op": "remove", "nid": h["nid"]})
        else:
            ops.append({"op": h["op"], "id": h["id"], "k": h["k"]})
        for cid in (0, 1410, 291, 0x702, 0x703, 0x82, 0x602, 0x603, 0x583, 1442, 1443):
            ts += 1
            if rng.random() < 0.5:
                ops.append(probe(rng, cid, ts))
    return ops


def random_ops(rng, length):
    ops, ts = [], 1000
    nodes = {}
    pool_ids = [0, 0x123, 0x582, 0x583, 0x702, 0x82, 0x602, 0x7FF, 0x800, 0x10701, 0x1FFFFFFF, 0x181, 0x7E4]
    node_ids = [2, 3, 127, 1]
    subscribed = {}
    xsdo = {}
    for _ in range(length):
        r = rng.random()
        ts += rng.randrange(1, 50)
        if r < 0.18:
            cid, k = rng.choice(pool_ids), rng.randrange(1, 9)
            ops.append({"op": "sub", "id": cid, "k": k})
            subscribed.setdefault(cid, set()).add(k)
        elif r < 0.30:
            cid, k = rng.choice(pool_ids), rng.randrange(1, 9)
            ops.append({"op": "unsub", "id": cid, "k": k})
            subscribed.get(cid, set()).discard(k)
        elif r < 0.34:
            # unsubscribe-all only where no node handler / LSS handler lives (removing a node whose
            # handler was unsubscribed by hand raises in the library; outside the property)
            cid = rng.choice(pool_ids)
            if cid not in handler_ids(nodes, xsdo) and cid != 0x7E4:
                ops.append({"op": "unsuball", "id": cid})
                subscribed.pop(cid, None)
        elif r < 0.44:
            nid, kind = rng.choice(node_ids), rng.choice(["remote", "local"])
            extra = [0x5C0 + nid] if kind == "remote" and rng.random() < 0.3 else []
            ops.append({"op": "add", "nid": nid, "kind": kind, "how": rng.choice(["add", "setitem", "int"]), "extra": extra})
            nodes[nid] = kind
            xsdo[nid] = set(extra)
        elif r < 0.448:
            if nodes:      # the application unsubscribes a handler of a node itself, then removes / replaces the node
                nid = rng.choice(sorted(nodes))
                ops.append({"op": "unsub_handler", "nid": nid, "role": rng.randrange(4)})
                if rng.random() < 0.7:
                    ops.append(rng.choice([{"op": "remove", "nid": nid},
                                           {"op": "add", "nid": nid, "kind": rng.choice(["remote", "local"]), "how": "add", "extra": []}]))
                ops.append({"op": "notify", "id": rng.choice([0, 0x700 + nid, 0x80 + nid, 0x580 + nid]), "d": [5, nid, 0, 0, 0, 0, 0, 0], "ts": 1})
        elif r < 0.455:
            if nodes:      # the same node object is registered again
                ops.append({"op": "readd", "nid": rng.choice(sorted(nodes)), "how": rng.choice(["add", "setitem"])})
        elif r < 0.47:
            rem = [n for n, k in nodes.items() if k == "remote"]
            if rem:
                nid = rng.choice(rem)
                tx = rng.choice([0x5A0 + nid, 0x5C0 + nid, 0x123])
                ops.append({"op": "addsdo", "nid": nid, "tx": tx})
                xsdo.setdefault(nid, set()).add(tx)
        elif r < 0.50:
            if nodes:
                nid = rng.choice(sorted(nodes))
                ops.append({"op": "remove", "nid": nid})
                del nodes[nid]
                xsdo.pop(nid, None)
        elif r < 0.80:
            cid = rng.choice(pool_ids + sorted(handler_ids(nodes, xsdo)) + [0x700 + rng.randrange(1, 128)])
            needs8 = cid in handler_ids(nodes, xsdo) or cid in (0x82, 0x582, 0x583, 0x702, 0x602, 0)
            d = [rng.randrange(256) for _ in range(8 if needs8 else rng.randrange(0, 9))]
            ops.append({"op": "notify", "id": cid, "d": d, "ts": ts})
        elif r < 0.88:
            cid = rng.choice(pool_ids)
            kind = rng.choice(["data", "err", "rtr", "boom"])
            if kind == "boom" and cid not in handler_ids(nodes, xsdo) and cid != 0x7E4:
                ops.append({"op": "sub", "id": cid, "k": 99})
                ops.append({"op": "listener", "id": cid, "d": [1, 2, 3, 4, 5, 6, 7, 8], "ts": ts})
                ops.append({"op": "unsub", "id": cid, "k": 99})
            else:
                needs8 = cid in handler_ids(nodes, xsdo) or cid in (0x82, 0x582, 0x583, 0x702, 0x602, 0)
                ops.append({"op": "listener", "id": cid, "d": [rng.randrange(256) for _ in range(8 if needs8 else rng.randrange(0, 9))],
                            "ts": rng.choice([ts, ts, 0]), "err": kind == "err", "rtr": kind == "rtr"})
        elif r < 0.97:
            cid = rng.choice([0, 1, 0x7FE, 0x7FF, 0x800, 0x801, 0x1FFFFFFF, rng.randrange(0x800), rng.randrange(1 << 29)])
            remote = rng.random() < 0.3       # a remote frame usually carries no data; the flag is the caller's choice all the same
            ops.append({"op": "send", "id": cid, "remote": remote,
                        "d": [] if remote and cid % 2 == 0 else [rng.randrange(256) for _ in range(rng.randrange(0, 9))]})
        else:
            ops.append({"op": "scanreset"})
    return ops


def periodic_ops(rng):
    """the raw periodic API: start / update (bytes, bytearray, the caller's buffer re-used and changed in place,
    scribbled on afterwards) / stop, several tasks side by side"""
    ops, live, n = [], [], 0
    for _ in range(rng.randrange(4, 25)):
        r = rng.random()
        if r < 0.3 or not live:
            n += 1
            remote = rng.random() < 0.15
            ops.append({"op": "pstart", "id": rng.choice([0x80, 0x181, 0x7FF, 0x800, 0x1FFFFFFF, rng.randrange(1, 0x800)]),
                        "d": [] if remote else [rng.randrange(256) for _ in range(rng.randrange(0, 9))],
                        "period_ms": rng.choice([1, 10, 100, 1000]), "remote": remote,
                        "as": rng.choice(["bytes", "bytearray"]), "scribble": rng.random() < 0.5})
            live.append((n, remote))
        elif r < 0.85:
            h, remote = rng.choice(live)
            if remote:
                continue
            ops.append({"op": "pupdate", "h": h, "d": [rng.choice([0, 1, 255, rng.randrange(256)]) for _ in range(rng.randrange(0, 9))],
                        "as": rng.choice(["bytes", "bytearray", "same", "same"]), "scribble": rng.random() < 0.4})
            if rng.random() < 0.3:
                ops.append(dict(ops[-1], scribble=False))        # the same data once more
        else:
            h, remote = live.pop(rng.randrange(len(live)))
            ops.append({"op": "pstop", "h": h})
        if rng.random() < 0.2:
            ops.append({"op": "send", "id": rng.randrange(0x800), "remote": False, "d": [1, 2, 3]})
    return ops


def sweep_ops(rng, tier):
    """scanner and frame-format rule: every 11-bit id, sampled 29-bit ids"""
    ops = []
    ids = list(range(0, 0x800))
    rng.shuffle(ids)
    ext = [0x800, 0x880, 0x10701, 0x10181, 0x1FFFFFFF, 0x80000 + 0x701, 0x12345 << 4 | 0x81 & 0xF]
    ext += [rng.randrange(0x800, 1 << 29) for _ in range(300 if tier == "quick" else 5000)]
    ext += [(rng.randrange(1, 1 << 18) << 11) | s | n for s in (0x80, 0x180, 0x580, 0x700) for n in (1, 5, 127)]
    seqs = []
    for chunk in (ids, ext):
        cur = []
        for i, cid in enumerate(chunk):
            cur.append({"op": "notify", "id": cid, "d": [], "ts": i})
            if cid < 0x800 and rng.random() < 0.3 or cid >= 0x800 and rng.random() < 0.2:
                cur.append({"op": "send", "id": cid, "d": [i % 256], "remote": False})
            if len(cur) >= 300:
                seqs.append(cur)
                cur = []
        if cur:
            seqs.append(cur)
    return seqs


def main():
    args = parse_args(PROP)
    v = Verdict(PROP, args)
    mc = tlc.run_tlc("MC_Net", "MC_Net.cfg" if args.tier == "quick" else "MC_Net_thorough.cfg",
                     workers=args.jobs, timeout=3000)
    if not mc.ok:
        v.report({"clause": "model:" + str(mc.violated)}, f"MC_Net violates {mc.violated}", {"tlc_tail": mc.stdout[-3000:]})
    gen = tlc.simulate("MC_Net", "Gen_Net.cfg", num=200 if args.tier == "quick" else 3000, depth=15, seed=args.seed)
    behs = {json.dumps(b, sort_keys=True): b for b in tlc.beh_json(gen)}
    rng = random.Random(args.seed * 999331 + 10)
    if args.replay:
        cases = [json.load(open(args.replay))["case"]]
    else:
        cases = [{"ops": from_behaviour(behs[k], rng), "src": "tlc"} for k in sorted(behs)][:400 if args.tier == "quick" else 6000]
        for _ in range(120 if args.tier == "quick" else 3000):
            cases.append({"ops": random_ops(rng, rng.choice([60, 150, 400])), "src": "random"})
        cases += [{"ops": o, "src": "sweep"} for o in sweep_ops(rng, args.tier)]
        prng = random.Random(args.seed * 7919 + 101)        # own stream: the cases above stay what they were
        for i in range(150 if args.tier == "quick" else 3000):
            cases.append({"ops": periodic_ops(prng), "src": "periodic", "fixed_tasks": i % 2 == 1})
    results = run_cases("harness.drv_net:run_case", cases, jobs=args.jobs, timeout=120)
    if any(r.get("hang") for r in results):
        raise RuntimeError("driver hang")
    val = tlc.validate_traces("Trace_Net", results, cfg="Trace.cfg", jobs=args.jobs)
    for rej in val.rejects:
        ev = rej.event or {}
        sig = {"clause": rej.why, "ev": ev.get("e"), "ext_id": bool(ev.get("id", 0) > 0x7FF)}
        slim = {k: x for k, x in ev.items() if k not in ("subs",)}
        v.report(sig, f"{rej.why}: {str(slim)[:400]}",
                 {"case": cases[rej.index], "step": rej.step, "why": rej.why, "spec_state": rej.state[:3000],
                  "event": ev})
    src = {}
    for c in cases:
        src[c["src"]] = src.get(c["src"], 0) + 1
    cov = {"states": mc.distinct, "transitions": mc.generated,
           "traces_validated_against_impl": val.traces,
           "samples": [[{k: x for k, x in e.items() if k != "subs"} for e in results[0]["ev"][:4]]],
           "trace_events": val.events, "cases_by_source": src, "tlc_generated_behaviours": len(behs),
           "rejected": len(val.rejects)}
    return v.finish("model_checking", cov, [
        "node handlers are observed through class-level wrappers installed by the harness (bound-method identity in the subscriber lists is unchanged)",
        "unsubscribe-all is not applied to CAN ids that hold node or LSS handlers (removing a node afterwards raises in the library; outside the property)",
        "a raising callback is exercised only through the listener"])


if __name__ == "__main__":
    main_wrapper(main)
