"""C11 -- NMT commands, states and heartbeats follow the CiA 301 state machine.

Leg A: MC_Nmt -- all event sequences up to depth 4 (exhaustive).  Leg B: TLC-generated longer
behaviours and all short command sequences replayed on a real master/slave pair.  Leg C: all 256
heartbeat bytes, all state names and arbitrary strings, random histories, waits with and without a
feeder; every step judged by TLC (Trace_Nmt)."""
import itertools
import json
import random

from harness import tlc
from harness.common import Verdict, main_wrapper, parse_args
from harness.pool import run_cases

PROP = "C11"
CODES = [1, 2, 80, 96, 128, 129, 130, 0, 3, 127, 255]
NAMES = ["OPERATIONAL", "STOPPED", "SLEEP", "STANDBY", "PRE-OPERATIONAL", "INITIALISING", "RESET",
         "RESET COMMUNICATION"]
BADNAMES = ["", "operational", "OPERATIONAL ", "UNKNOWN", "START", "PREOPERATIONAL", "RESET NODE", "0", "INITIALIZING"]


def beh_ops(beh, nid, other):
    ops = []
    for h in beh:
        if h["e"] == "cmd":
            ops.append({"op": "cmd", "who": h["who"], "code": h["code"]})
        elif h["e"] == "inject":
            ops.append({"op": "inject", "code": h["code"], "target": nid if h["target"] == 5 else (0 if h["target"] == 0 else other)})
        else:
            ops.append({"op": "hb", "byte": h["byte"]})
    return ops


def gen_cases(tier, seed, behs):
    rng = random.Random(seed * 7 + 11)
    cases = []
    nids = [5, 1, 127, 64]
    for b in behs:
        nid = rng.choice(nids)
        cases.append({"nid": nid, "ops": beh_ops(b, nid, 9 if nid != 9 else 10), "src": "tlc"})
    # all command sequences up to length 2 (quick) / 3 (thorough) over specifiers x issuers/targets
    alphabet = []
    for c in CODES[:9]:
        alphabet += [{"op": "cmd", "who": "master", "code": c}, {"op": "cmd", "who": "bcast", "code": c},
                     {"op": "inject", "code": c, "target": "own"}, {"op": "inject", "code": c, "target": 0},
                     {"op": "inject", "code": c, "target": "other"}]
    L = 2 if tier == "quick" else 3
    seqs = list(itertools.product(range(len(alphabet)), repeat=L))
    rng.shuffle(seqs)
    chunk = []
    for sq in seqs:
        # every sequence starts from a random defined state reached by a master command
        chunk.append({"op": "cmd", "who": "master", "code": rng.choice([1, 2, 128, 129])})
        chunk += [dict(alphabet[i]) for i in sq]
        if len(chunk) > 300:
            cases.append({"nid": 5, "ops": chunk, "src": "enum"})
            chunk = []
    if chunk:
        cases.append({"nid": 5, "ops": chunk, "src": "enum"})
    for c in cases:
        for o in c["ops"]:
            if o.get("target") == "own":
                o["target"] = c["nid"]
            elif o.get("target") == "other":
                o["target"] = 9
    # all 256 heartbeat bytes, all names, arbitrary strings
    ops = []
    for b in range(256):
        ops.append({"op": "hb", "byte": b})
        if b % 16 == 0:
            ops.append({"op": "cmd", "who": "master", "code": rng.choice([1, 2, 128])})
    cases.append({"nid": 5, "ops": ops, "src": "hb256"})
    # the same heartbeat bytes while the master guards the node (the toggle bit means nothing to it)
    for _ in range(3 if tier == "quick" else 30):
        ops = [{"op": "guard", "on": True}]
        for _ in range(40):
            b = rng.choice([5, 4, 127, 0]) | rng.choice([0, 0x80, 0, 0])
            ops.append({"op": "hb", "byte": b})
            if rng.random() < 0.15:
                ops.append({"op": "guard", "on": rng.random() < 0.7})
        cases.append({"nid": 5, "ops": ops, "src": "guarded"})
    ops = []
    for who in ("master", "slave"):
        for name in NAMES + BADNAMES + NAMES:
            ops.append({"op": "set", "who": who, "name": name})
            ops.append({"op": "set", "who": rng.choice(["master", "slave"]), "name": rng.choice(NAMES + BADNAMES)})
    cases.append({"nid": 7, "ops": ops, "src": "names"})
    # random histories
    for _ in range(60 if tier == "quick" else 1500):
        nid = rng.choice(nids)
        ops = []
        for _ in range(rng.choice([20, 80, 200])):
            r = rng.random()
            if r < 0.3:
                ops.append({"op": "cmd", "who": rng.choice(["master", "slave", "bcast"]), "code": rng.choice(CODES)})
            elif r < 0.5:
                ops.append({"op": "inject", "code": rng.choice(CODES), "target": rng.choice([nid, 0, 9, 128 + nid % 100])})
            elif r < 0.7:
                ops.append({"op": "set", "who": rng.choice(["master", "slave"]), "name": rng.choice(NAMES + BADNAMES[:3])})
            else:
                ops.append({"op": "hb", "byte": rng.randrange(256)})
        cases.append({"nid": nid, "ops": ops, "src": "random"})
    # waits: with feeder (parked waiter), without (small timeout)
    for _ in range(10 if tier == "quick" else 60):
        ops = []
        for _ in range(4):
            kind = rng.choice(["hb", "boot"])
            feed = rng.choice([[], [5], [0], [127, 0], [4, 5, 0], [133], [128]])
            if kind == "hb":
                feed = feed[:1]
            if rng.random() < 0.6:      # a heartbeat / boot-up handled while nobody is waiting
                ops.append({"op": "hb", "byte": rng.choice([0, 5, 127, 4])})
            w = {"op": "wait", "kind": kind, "feed": feed, "timeout": 0.15 if not feed or (kind == "boot" and 0 not in [f % 128 for f in feed]) else 5}
            if kind == "boot" and rng.random() < 0.5:
                # ordinary heartbeats keep coming, the boot-up message only after the deadline
                w["feed"] = [rng.choice([5, 127, 4, 0x85]) for _ in range(rng.randrange(1, 3))] + [rng.choice([5, 127]), 0]
                w["late_from"] = len(w["feed"]) - 2
                w["timeout"] = 5
            if feed and "late_from" not in w and rng.random() < (0.8 if kind == "hb" else 0.3):
                # (mostly a reset command for this node or for all nodes: it changes the state for sure)
                w["inject"] = [rng.choice([129, 129, 130, 1, 2, 128]), rng.choice([0, 5, 5, 99])]
            ops.append(w)
            ops.append({"op": "cmd", "who": "master", "code": rng.choice([1, 2, 128])})
        cases.append({"nid": 5, "ops": ops, "src": "wait"})
    return cases


def main():
    args = parse_args(PROP)
    v = Verdict(PROP, args)
    mc = tlc.run_tlc("MC_Nmt", "MC_Nmt.cfg", workers=8, timeout=1200)
    if not mc.ok:
        v.report({"clause": "model:" + str(mc.violated)}, f"MC_Nmt violates {mc.violated}", {"tlc_tail": mc.stdout[-3000:]})
    gen = tlc.simulate("MC_Nmt", "Gen_Nmt.cfg", num=100 if args.tier == "quick" else 2000, depth=13, seed=args.seed)
    behs = {json.dumps(b, sort_keys=True): b for b in tlc.beh_json(gen)}
    behs = [behs[k] for k in sorted(behs)][:300 if args.tier == "quick" else 5000]
    if args.replay:
        cases = [json.load(open(args.replay))["case"]]
    else:
        cases = gen_cases(args.tier, args.seed, behs)
    results = run_cases("harness.drv_nmt:run_case", cases, jobs=args.jobs, timeout=120)
    if any(r.get("hang") for r in results):
        raise RuntimeError("driver hang")
    val = tlc.validate_traces("Trace_Nmt", results, cfg="Trace.cfg", jobs=args.jobs)
    for rej in val.rejects:
        ev = rej.event or {}
        sig = {"clause": rej.why, "ev": ev.get("e"), "who": ev.get("who")}
        v.report(sig, f"{rej.why}: {str(ev)[:400]} spec={rej.state}",
                 {"case": cases[rej.index], "step": rej.step, "why": rej.why, "spec_state": rej.state, "event": ev})
    src = {}
    for c in cases:
        src[c["src"]] = src.get(c["src"], 0) + 1
    cov = {"states": mc.distinct, "transitions": mc.generated, "traces_validated_against_impl": val.traces,
           "samples": [results[0]["ev"][:4]], "trace_events": val.events, "cases_by_source": src,
           "tlc_generated_behaviours": len(behs), "rejected": len(val.rejects)}
    return v.finish("model_checking", cov, [
        "master and slave sit on two Network objects joined by an inline harness bus (a Network cannot hold a RemoteNode and a LocalNode with the same id)",
        "reported names of undefined state codes are unconstrained except that they are not a defined state name",
        "wait tests feed the heartbeat only after the waiter is parked on its condition variable; the no-feeder case uses a 0.15 s time-out"])


if __name__ == "__main__":
    main_wrapper(main)
