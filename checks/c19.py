"""C19 -- CiA 402 state decoding and commanded transitions follow the drive state machine.

Leg A: MC_P402 -- the library's state-change algorithm (one atomic step per statusword read /
controlword write) against the CiA 402 drive with independent automatic transitions: NoValueError,
NoTimeout (except a drive that is too slow), OeOnlyIfAllowed, CommandableReached, liveness Reaches;
the same model with the original read pattern (Fixed = FALSE) must exhibit the race (guard that the
model can see it).  Table: all 65536 statuswords.  Leg B/C: every (state, target) pair x every
placement of the automatic transition (after the k-th drive access) x extra status bits x SDO / PDO
transport on the real BaseNode402 against a drive simulator; traces judged by TLC (Trace_P402); all
operation modes x supported-mode masks."""
import json
import random

from harness import tlc
from harness.common import Verdict, main_wrapper, parse_args
from harness.pool import run_cases

PROP = "C19"
STATES = ["NOT READY TO SWITCH ON", "SWITCH ON DISABLED", "READY TO SWITCH ON", "SWITCHED ON", "OPERATION ENABLED",
          "QUICK STOP ACTIVE", "FAULT REACTION ACTIVE", "FAULT"]
MODES = ["NO MODE", "PROFILED POSITION", "VELOCITY", "PROFILED VELOCITY", "PROFILED TORQUE", "HOMING",
         "INTERPOLATED POSITION", "CYCLIC SYNCHRONOUS POSITION", "CYCLIC SYNCHRONOUS VELOCITY", "CYCLIC SYNCHRONOUS TORQUE"]


def main():
    args = parse_args(PROP)
    v = Verdict(PROP, args)
    mc = tlc.run_tlc("MC_P402", "MC_P402.cfg", workers=args.jobs, timeout=1200)
    if not mc.ok:
        v.report({"clause": "model:" + str(mc.violated)}, f"MC_P402 violates {mc.violated}", {"tlc_tail": mc.stdout[-3000:]})
    guard = tlc.run_tlc("MC_P402", "MC_P402_original.cfg", workers=4, timeout=1200)
    if guard.ok:
        raise RuntimeError("vacuity guard: the model with the original read pattern no longer exhibits the read/act race")
    scen = {}
    for b in tlc.beh_json(mc):
        scen[json.dumps(b, sort_keys=True)] = b
    rng = random.Random(args.seed * 19 + 19)
    if args.replay:
        cases = [json.load(open(args.replay))["case"]]
    else:
        cases = []
        ks = [None] + list(range(0, 13 if args.tier == "quick" else 25))
        for transport in ("sdo", "pdo", "sdo_dis"):
            for init in STATES:
                for target in STATES:
                    for k in (ks if init in ("NOT READY TO SWITCH ON", "FAULT REACTION ACTIVE") else [0]):
                        for extra in (False, True):
                            cases.append({"kind": "state", "init": init, "targets": [target], "auto_after": k,
                                          "extra": extra, "transport": transport})
            # slow drive: commanded transitions show only after some further statusword reads
            for init in STATES:
                for target in STATES[1:6]:
                    for lag in ((1, 2, 4) if transport == "sdo" else ()):
                        cases.append({"kind": "state", "init": init, "targets": [target], "auto_after": 0, "lag": lag,
                                      "extra": False, "transport": transport})
            # a drive about as slow as the library's single-step time-out: the step completes while the
            # library is between two attempts
            if transport == "sdo":
                for init in ("SWITCH ON DISABLED", "READY TO SWITCH ON", "SWITCHED ON", "OPERATION ENABLED", "FAULT"):
                    for target in STATES[1:6]:
                        # (every lag around the single-step time-out: the window of F29 was lag 84 only)
                        for lag in (range(78, 92) if args.tier == "quick" else range(60, 120)):
                            cases.append({"kind": "state", "init": init, "targets": [target], "auto_after": 0,
                                          "lag": lag, "extra": False, "transport": transport})
            # a fault whose cause persists for the first reset attempts
            for target in STATES[1:6]:
                for sticky in (1, 2):
                    cases.append({"kind": "state", "init": "FAULT", "targets": [target], "auto_after": 0, "sticky": sticky,
                                  "extra": False, "transport": transport})
            # histories with a slow drive and state changes the drive makes by itself in between
            for _ in range(60 if args.tier == "quick" else 600):
                tg = []
                for _ in range(rng.randrange(2, 6)):
                    tg.append(rng.choice(STATES[1:6]))
                    if rng.random() < 0.5:
                        tg.append("!" + rng.choice(["FAULT", "SWITCH ON DISABLED", "READY TO SWITCH ON"]))
                cases.append({"kind": "state", "init": rng.choice(STATES), "auto_after": rng.choice([0, 1, 3]),
                              "lag": rng.choice([0, 1, 2, 3]) if transport == "sdo" else 0, "extra": rng.random() < 0.5, "transport": transport,
                              "targets": tg})
            # histories: several targets in a row on one node
            for _ in range(40 if args.tier == "quick" else 600):
                cases.append({"kind": "state", "init": rng.choice(STATES), "auto_after": rng.choice([0, 1, 2, 3, 5, 8]),
                              "extra": rng.random() < 0.5, "transport": transport,
                              "targets": [rng.choice(STATES[1:6]) for _ in range(rng.randrange(2, 6))]})
        masks = [0, 0xFFFFFFFF, 0x3EF] + [1 << b for b in range(16)] + [0xFFFF ^ (1 << b) for b in range(10)] + \
                [rng.getrandbits(32) for _ in range(8 if args.tier == "quick" else 200)]
        for i in range(0, len(masks), 6):
            cases.append({"kind": "opmode", "masks": masks[i:i + 6], "modes": MODES, "transport": "sdo"})
            cases.append({"kind": "opmode", "masks": masks[i:i + 6], "modes": MODES, "transport": "sdo_dis"})
            cases.append({"kind": "opmode", "masks": masks[i:i + 6], "modes": MODES, "transport": "pdo_split"})
            cases.append({"kind": "opmode", "masks": masks[i:i + 6], "modes": MODES, "transport": "pdo",
                          "seed": rng.randrange(1 << 30)})
    results = run_cases("harness.drv_p402:run_case", cases, jobs=args.jobs, timeout=60)
    for c, r in zip(cases, results):
        if r.get("hang"):       # not even the step caps of the driver ended the call
            v.report({"clause": "the call did not return (hang)", "kind": c.get("kind")},
                     f"the call did not return within 60 s [case={str(c)[:300]}]", {"case": c})
            r.clear()
            r["ev"] = []
    val = tlc.validate_traces("Trace_P402", results, cfg="Trace.cfg", jobs=args.jobs)
    for rej in val.rejects:
        ev = rej.event or {}
        c = cases[rej.index]
        sig = {"clause": rej.why.split(" (")[0], "ev": ev.get("e"), "cls": ev.get("cls"),
               "auto_scheduled": c.get("auto_after") is not None and c.get("init") in ("NOT READY TO SWITCH ON", "FAULT REACTION ACTIVE")}
        v.report(sig, f"{rej.why} [init={c.get('init')} targets={c.get('targets')} auto_after={c.get('auto_after')} "
                      f"extra={c.get('extra')} transport={c.get('transport')}] event={str(ev)[:300]} spec={rej.state[:300]}",
                 {"case": c, "step": rej.step, "why": rej.why, "spec_state": rej.state, "event": ev})
    nrows = nbad = 0
    for via in (0, "pdo"):      # every statusword carried by SDO, and by a TPDO
        rows = run_cases("harness.drv_p402:sw_table", [via], jobs=1, timeout=300)[0]
        bad, _ = tlc.check_table("Table_P402", rows, jobs=2)
        nrows, nbad = nrows + len(rows), nbad + len(bad)
        for idx, why in bad[:3000]:
            r = rows[idx]
            v.report({"clause": why, "low7": r["sw"] & 0x6F, "via": via or "sdo"},
                     f"{why}: 0x{r['sw']:04X} (by {via or 'sdo'}) -> {r['state']}", {"row": r, "via": via or "sdo"})
    outcome = {}
    for c, r in zip(cases, results):
        if c["kind"] == "state" and r["ev"]:
            k = r["ev"][-1]["e"] + (":" + r["ev"][-1].get("cls", "") if r["ev"][-1]["e"] == "raise" else "")
            outcome[k] = outcome.get(k, 0) + 1
    cov = {"states": mc.distinct, "transitions": mc.generated, "traces_validated_against_impl": val.traces,
           "samples": [results[min(5, len(results) - 1)]["ev"][:8]], "trace_events": val.events, "model_scenarios": len(scen),
           "statusword_table_rows": nrows, "bad_rows": nbad, "outcomes": outcome,
           "original_algorithm_counterexample_found": not guard.ok, "rejected": len(val.rejects)}
    return v.finish("model_checking", cov, [
        "reference drive: QUICK STOP ACTIVE is stable; initial last controlword has bit 7 clear; automatic transitions fire after the k-th drive access",
        "a time-out while the drive still owes its automatic transition is legitimate (drive too slow)",
        "assigning the non-commandable state the drive is already in returns silently (observation only)",
        "virtual time (0.01 s per clock query)"])


if __name__ == "__main__":
    main_wrapper(main)
