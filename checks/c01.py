"""C01 -- SDO client transfers exactly the caller's bytes in conformant CiA 301 frames.

Leg A: TLC checks MC_SdoCore (any legal client x any legal server => exact transfer).
Leg C: the real SdoClient is driven over lengths / chunkings / buffering modes / response styles /
       histories against the reference server simulator; every trace is validated by TLC against
       Trace_SdoClient (CliFrames legality at every step, reference-server semantics, end-to-end
       equality at return).
"""
from __future__ import annotations

import itertools
import random

from harness import tlc
from harness.common import Verdict, main_wrapper, parse_args
from harness.pool import run_cases

PROP = "C01"
NV = [-1]


def entry(idx, sub, value=None, num=False, size=0, acc="rw"):
    return {"idx": idx, "sub": sub, "num": num, "size": size, "acc": acc,
            "def": list(value) if value is not None else NV, "val": NV, "rcb": NV}


def payload(rng, n, ascii_only=False):
    if ascii_only:
        return [rng.randrange(32, 127) for _ in range(n)]
    mode = rng.randrange(4)
    if mode == 0:
        return [(i * 7 + 1) % 256 for i in range(n)]      # position-distinct
    if mode == 1:
        return [rng.choice([0, 255]) for _ in range(n)]     # zero / 0xFF heavy (padding bugs)
    return [rng.randrange(256) for _ in range(n)]


def compositions(n):
    """all ordered splits of n into positive parts"""
    if n == 0:
        return [[]]
    res = []
    for bits in itertools.product([0, 1], repeat=n - 1):
        parts, cur = [], 1
        for b in bits:
            if b:
                parts.append(cur)
                cur = 1
            else:
                cur += 1
        parts.append(cur)
        res.append(parts)
    return res


def random_split(rng, n):
    parts = []
    while n > 0:
        k = rng.choice([1, 2, 3, 4, 5, 6, 7, 8, 9, 13, 20, 100, n])
        k = min(k, n)
        parts.append(k)
        n -= k
        if n > 0 and rng.random() < 0.1:
            parts.append(0)        # an empty piece between two pieces is a legal write() too
    return parts


MUXES = [(0x2000, 0), (0x0001, 0), (0xFFFF, 0xFF), (0x1000, 1), (0x7F80, 0x80), (0x00FF, 0xFE)]
STYLES = [
    {"small": "exp", "size_ind": True, "chunk": "full"},
    {"small": "seg", "size_ind": True, "chunk": "full"},
    {"small": "seg", "size_ind": False, "chunk": "full"},
    {"small": "exp_nosize", "size_ind": True, "chunk": "full"},
    {"small": "exp", "size_ind": False, "chunk": "random"},
    {"small": "seg", "size_ind": True, "chunk": "random"},
]
BUFFERINGS = [0, 2, 3, 4, 7, 8, 1024]
# numeric type codes for the client-side OD (upload truncation rule)
NUM_TYPES = [0x1, 0x2, 0x3, 0x4, 0x5, 0x6, 0x7, 0x8, 0x10, 0x11, 0x12, 0x13, 0x14, 0x15, 0x16,
             0x18, 0x19, 0x1A, 0x1B]
NONNUM_TYPES = [0x9, 0xA, 0xB, 0xF, 0xC, 0xD, 0x40]
SIZE = {0x1: 1, 0x2: 1, 0x3: 2, 0x4: 4, 0x5: 1, 0x6: 2, 0x7: 4, 0x8: 4, 0x10: 3, 0x11: 8,
        0x12: 5, 0x13: 6, 0x14: 7, 0x15: 8, 0x16: 3, 0x18: 5, 0x19: 6, 0x1A: 7, 0x1B: 8}


def gen_cases(tier, seed):
    rng = random.Random(seed * 7919 + 1)
    cases = []

    def mk(calls, od, style=None, cod=None, tag=""):
        cases.append({"od": od, "style": style or STYLES[0], "cod": cod or [], "calls": calls,
                      "seed": rng.randrange(1 << 30), "tag": tag})

    lens = list(range(0, 65))
    # (1) download()/upload() for every length 0..64, both force settings, every response style
    for n in lens:
        for force in (False, True):
            mux = MUXES[(n + force) % len(MUXES)]
            d = payload(rng, n)
            od = [entry(*mux)]
            st = STYLES[(n * 2 + force) % len(STYLES)]
            mk([{"api": "download", "idx": mux[0], "sub": mux[1], "data": d, "force": force},
                {"api": "upload", "idx": mux[0], "sub": mux[1]},
                {"api": "open_r", "idx": mux[0], "sub": mux[1], "buffering": rng.choice(BUFFERINGS),
                 "reads": [rng.choice([0, 1, 3, 7, 8, 50]) for _ in range(rng.randrange(3))]}],
               od, st, tag="len")
    # (2) upload of preset values of every length through every response style
    for n in lens:
        for st in STYLES:
            if tier == "quick" and (n + STYLES.index(st)) % 2 and n > 12:
                continue
            mux = MUXES[n % len(MUXES)]
            v = payload(rng, n)
            mk([{"api": "upload", "idx": mux[0], "sub": mux[1]},
                {"api": "open_r", "idx": mux[0], "sub": mux[1], "buffering": rng.choice(BUFFERINGS),
                 "reads": [rng.choice([1, 2, 6, 7, 8, 20])]},
                # read in small pieces until a piece comes back empty, through a small buffer (or none)
                {"api": "open_r", "idx": mux[0], "sub": mux[1], "buffering": [2, 3, 4, 5, 6, 0, 7][n % 7],
                 "chunked": [1, 2, 3, 5][n % 4]}],
               [entry(mux[0], mux[1], v, acc="ro")], st, tag="style")
    # (3) file-like writes: every split for lengths <= 6, every buffering, size declared or not
    for n in range(0, 7):
        for split in compositions(n):
            for bufg in BUFFERINGS:
                for decl in (True, False):
                    d = payload(rng, n)
                    mk([{"api": "open_w", "idx": 0x2000, "sub": 0, "data": d,
                         "size": n if decl else -1, "buffering": bufg, "chunks": split,
                         "mode": "wb", "force": False}], [entry(0x2000, 0)], tag="split")
    # (4) file-like writes: random splits, longer payloads, forced segmentation, text mode
    reps = 150 if tier == "quick" else 1500
    for i in range(reps):
        n = rng.choice([rng.randrange(0, 30), rng.randrange(0, 30), rng.randrange(30, 200),
                        7 * rng.randrange(1, 20) + rng.choice([-1, 0, 1])])
        text = rng.random() < 0.2
        d = payload(rng, n, ascii_only=text)
        bufg = rng.choice([1] if text else BUFFERINGS)
        if text and rng.random() < 0.5:
            bufg = rng.choice([2, 3, 8, 1024])
        decl = rng.random() < 0.6
        calls = [{"api": "open_w", "idx": 0x2000, "sub": 0, "data": d, "size": n if decl else -1,
                  "buffering": bufg, "chunks": random_split(rng, n), "mode": "wt" if text else "wb",
                  "force": rng.random() < 0.3},
                 {"api": "open_r", "idx": 0x2000, "sub": 0, "mode": "rt" if text else "rb",
                  "buffering": rng.choice([1, 2, 8, 1024] if text else BUFFERINGS),
                  "reads": [rng.choice([0, 1, 5, 7, 8, 64]) for _ in range(rng.randrange(4))]}]
        mk(calls, [entry(0x2000, 0)], rng.choice(STYLES), tag="file")
    # (5) long payloads: around multiples of 7, up to 10^4
    longs = [7 * k + dlt for k in (10, 18, 127, 128) for dlt in (-1, 0, 1)] + [889, 1000, 2000]
    if tier == "thorough":
        longs += [7 * k + dlt for k in range(20, 1430, 97) for dlt in (-1, 0, 1)] + [9999, 10000, 10001]
    else:
        longs += [10000]
    for n in longs:
        d = payload(rng, n)
        decl = rng.random() < 0.5
        mk([{"api": "open_w", "idx": 0x2000, "sub": 0, "data": d, "size": n if decl else -1,
             "buffering": rng.choice([0, 7, 1024]), "chunks": random_split(rng, n), "mode": "wb"},
            {"api": "upload", "idx": 0x2000, "sub": 0}], [entry(0x2000, 0)], rng.choice(STYLES),
           tag="long")
    # (6) upload through a client OD entry: declared numeric size smaller / equal / larger than
    #     the served value; non-numeric and unknown types keep everything
    for dt in NUM_TYPES + NONNUM_TYPES:
        for served in ([1, 2, 3, 4, 5, 8, 9] if tier == "quick" else range(0, 12)):
            for rec in (False, True):
                sub = 3 if rec else 0
                cod = [{"idx": 0x2100, "sub": sub, "dt": dt, "rec": rec}]
                v = payload(rng, served)
                st = rng.choice(STYLES)
                mk([{"api": "upload", "idx": 0x2100, "sub": sub}],
                   [entry(0x2100, sub, v, acc="ro")], st, cod, tag="odsize")
    # (6a) download through the variable spelling node.sdo[i].open("wb") on entries the client's dictionary
    #      declares as numbers, payload shorter / equal / longer than the declared size, size given or not
    for dt in NUM_TYPES:
        for n in (1, 2, 3, 4, 5, 8, 9):
            for rec in (False, True):
                for decl in (False, True):
                    sub = 3 if rec else 0
                    cod = [{"idx": 0x2100, "sub": sub, "dt": dt, "rec": rec}]
                    mk([{"api": "open_w", "idx": 0x2100, "sub": sub, "data": payload(rng, n), "size": n if decl else -1,
                         "buffering": [0, 1024, 3][n % 3], "chunks": [n], "mode": "wb", "via_var": True, "rec": rec}],
                       [entry(0x2100, sub)], STYLES[n % len(STYLES)], cod, tag="varopen")
    # (6b) implicit array members (array described by its first member) and a second close()
    for dt in NUM_TYPES:
        for served in (1, 2, 4, 8, 9):
            for sub in (1, 2, 5, 255):
                mk([{"api": "upload", "idx": 0x2200, "sub": sub}], [entry(0x2200, sub, payload(rng, served), acc="ro")],
                   rng.choice(STYLES), [{"idx": 0x2200, "sub": 1, "dt": dt, "arr": True}], tag="odsize-array")
    for n in (0, 1, 4, 5, 7, 8, 14, 20):
        for bufg in (0, 7, 1024):
            for decl in (True, False):
                mk([{"api": "open_w", "idx": 0x2000, "sub": 0, "data": payload(rng, n), "size": n if decl else -1,
                     "buffering": bufg, "chunks": random_split(rng, n), "mode": "wb", "double_close": True},
                    {"api": "upload", "idx": 0x2000, "sub": 0}], [entry(0x2000, 0)], tag="double-close")
    # (7) histories: 2..5 transfers of mixed kinds on one client
    reps = 120 if tier == "quick" else 1500
    for i in range(reps):
        od = [entry(*m) for m in MUXES]
        calls = []
        for _ in range(rng.randrange(2, 6)):
            mux = rng.choice(MUXES)
            n = rng.choice([0, 1, 2, 3, 4, 5, 6, 7, 8, 13, 14, 15, rng.randrange(0, 65)])
            kind = rng.choice(["download", "open_w", "upload", "open_r"])
            if kind == "download":
                calls.append({"api": "download", "idx": mux[0], "sub": mux[1], "data": payload(rng, n),
                              "force": rng.random() < 0.3})
            elif kind == "open_w":
                decl = rng.random() < 0.5
                calls.append({"api": "open_w", "idx": mux[0], "sub": mux[1], "data": payload(rng, n),
                              "size": n if decl else -1, "buffering": rng.choice(BUFFERINGS),
                              "chunks": random_split(rng, n), "mode": "wb",
                              "force": rng.random() < 0.3})
            elif kind == "upload":
                calls.append({"api": "upload", "idx": mux[0], "sub": mux[1]})
            else:
                calls.append({"api": "open_r", "idx": mux[0], "sub": mux[1],
                              "buffering": rng.choice(BUFFERINGS),
                              "reads": [rng.choice([1, 7, 9]) for _ in range(rng.randrange(3))]})
        # uploads of never-written entries are refusals (C06 territory) -- give every entry a value
        for e in od:
            e["def"] = payload(rng, rng.choice([0, 1, 4, 5, 7, 8, 20]))
        mk(calls, od, rng.choice(STYLES), tag="history")
    return cases


def signature(case, rej):
    """Description of a rejected trace for the known-findings matcher."""
    ev = rej.event or {}
    # find the call the rejected step belongs to
    sig = {"clause": rej.why}
    calls = case["calls"]
    # count call events up to the rejected step
    return sig, calls


def classify(case, trace, rej):
    ncall = sum(1 for e in trace["ev"][:rej.step + 1] if e["e"] == "call")
    call = case["calls"][max(0, ncall - 1)] if case["calls"] else {}
    sig = {"clause": rej.why, "api": call.get("api")}
    if call.get("api") == "open_w":
        size = call.get("size", -1)
        sig["expedited"] = bool(1 <= size <= 4 and not call.get("force"))
        sig["partial_first_write"] = bool(call.get("chunks") and
                                          (call["chunks"][0] < size or
                                           (call.get("buffering", 1024) in (2, 3)
                                            and call.get("buffering") < size)))
    if call.get("api") == "upload" and case.get("cod"):
        dt = case["cod"][0]["dt"]
        sig["odtype"] = "number" if dt in SIZE else ("data" if dt in (0x9, 0xA, 0xB, 0xF) else "other")
    return sig, call


def main():
    args = parse_args(PROP)
    v = Verdict(PROP, args)
    # ---- leg A
    maxlen = 16 if args.tier == "quick" else 30
    mc = tlc.run_tlc("MC_SdoCore", "MC_SdoCore.cfg" if args.tier == "quick" else
                     "MC_SdoCore_thorough.cfg", workers=args.jobs, timeout=3000,
                     extra=["-coverage", "1"])
    if not mc.ok:
        v.report({"clause": "model:" + str(mc.violated)}, f"MC_SdoCore violates {mc.violated}",
                 {"tlc_tail": mc.stdout[-3000:]})
    # ---- leg C
    if args.replay:
        import json
        with open(args.replay) as fh:
            cases = [json.load(fh)["case"]]
    else:
        cases = gen_cases(args.tier, args.seed)
    results = run_cases("harness.drv_sdo_client:run_case", cases, jobs=args.jobs, timeout=20)
    traces = []
    for c, r in zip(cases, results):
        if r.get("hang"):
            traces.append({"od": c["od"], "ev": [{"e": "hang", "n": 1}]})
        else:
            traces.append(r)
    val = tlc.validate_traces("Trace_SdoClient", traces, cfg="Trace.cfg", jobs=args.jobs)
    for rej in val.rejects:
        case, tr = cases[rej.index], traces[rej.index]
        sig, call = classify(case, tr, rej)
        v.report(sig, f"{rej.why} [case tag={case.get('tag')} call={ {k: (x if k != 'data' else f'<{len(x)} bytes>') for k, x in call.items()} }] "
                      f"event={str(rej.event)[:300]}",
                 {"case": case, "step": rej.step, "why": rej.why, "spec_state": rej.state,
                  "trace_tail": tr["ev"][max(0, rej.step - 3):rej.step + 1]})
    tags = {}
    for c in cases:
        tags[c.get("tag")] = tags.get(c.get("tag"), 0) + 1
    sample = traces[3]["ev"][:6] if len(traces) > 3 else traces[0]["ev"][:6]
    cov = {
        "states": mc.distinct, "transitions": mc.generated,
        "traces_validated_against_impl": val.traces,
        "samples": [{"trace_prefix": sample}, {"case": {k: x for k, x in cases[-1].items() if k != "od"}}],
        "trace_events": val.events, "trace_states": val.states, "rejected": len(val.rejects),
        "cases_by_kind": tags, "mc_depth": mc.depth, "mc_maxlen": maxlen,
        "mc_actions": {k: x for k, x in mc.coverage.items() if k in
                       ("StartDl", "StartUl", "Exchange", "Finish")},
        "lengths": "every length 0..64; +-1 around multiples of 7 up to 10^4 (thorough: dense)",
    }
    return v.finish("model_checking", cov, [
        "reference server simulator is untrusted: each of its responses is judged by SdoCore.SrvJudge",
        "inline bus, virtual time (empty response queue = time-out)",
        "TLC 1.8 and the JSON/IOUtils community modules are trusted"])


if __name__ == "__main__":
    main_wrapper(main)
