"""C13 -- SDO block upload returns exactly the server's data or fails visibly.

Leg A: MC_SdoBlock (upload direction: in-order acceptance + BuAckLegal => assembled data = value).
Leg C: the real BlockUploadStream against the reference block server: undisturbed uploads over
lengths / block sizes / CRC settings / read patterns; every single lost or bit-flipped segment
position, wrong CRC, wrong end frame.  With CRC negotiated a disturbed upload must raise an SDO
error or return exactly the value; without CRC disturbed outcomes are recorded only."""
import random

from harness import tlc
from harness.common import Verdict, main_wrapper, parse_args
from harness.pool import run_cases

PROP = "C13"


def gen_cases(tier, seed):
    rng = random.Random(seed * 40503 + 13)
    cases = []

    def mk(n, **kw):
        c = {"op": "bul", "value": [rng.randrange(256) for _ in range(n)], "crc": rng.random() < 0.7,
             "srvcrc": rng.random() < 0.85, "size_ind": rng.random() < 0.8,
             "buffering": rng.choice([1024, 1024, 0, 7, 8, 3, 64]),
             "reads": [rng.choice([1, 3, 7, 8, 50]) for _ in range(rng.randrange(3))],
             "seed": rng.randrange(1 << 30)}
        c.update(kw)
        cases.append(c)
    for n in range(1, 65):
        mk(n)
        mk(n, crc=True, srvcrc=True)
    longs = [888, 889, 890, 1777, 1778, 1779, 2000] + [7 * k + d for k in (100, 254) for d in (-1, 0, 1)]
    longs += [10000] if tier == "quick" else [7 * k + d for k in range(150, 1430, 61) for d in (-1, 0, 1)] + [9999, 10000, 10001]
    for n in longs:
        mk(n)
        mk(n, crc=True, srvcrc=True, buffering=1024, reads=[])
    # every single lost / flipped segment position (CRC on and off), wrong CRC, wrong end frame
    lens = [8, 15, 22, 50, 100, 200, 890] if tier == "quick" else list(range(1, 120, 2)) + [200, 500, 889, 890, 1000]
    for n in lens:
        nseg = (n + 6) // 7
        pos = range(1, nseg + 1) if nseg <= 30 else sorted(set([1, 2, nseg - 1, nseg, 126, 127, 128] + [rng.randrange(1, nseg + 1) for _ in range(8)]))
        for k in pos:
            if k > nseg:
                continue
            for crc in (True, False):
                mk(n, lose=[k], crc=crc, srvcrc=True, buffering=1024, reads=[])
                mk(n, flip=[k], crc=crc, srvcrc=True, buffering=1024, reads=[])
        mk(n, wrongcrc=True, crc=True, srvcrc=True)
        for we in (0xC0, 0xA1, 0x00, 0xC3, 0xE1):
            mk(n, wrongend=we, crc=True, srvcrc=True)
        for ss in (0, 2, 3):
            for crc in (True, False):
                mk(n, wrongend_ss=ss, crc=crc, srvcrc=True)
    # values whose CRC-16 is 0x0000 (all zero, or carrying their own CRC at the end): a checksum of 0 is
    # a checksum like any other
    import binascii
    for n in (7, 8, 20, 50, 200):
        zero = [0] * n
        body = [rng.randrange(256) for _ in range(n)]
        c = binascii.crc_hqx(bytes(body), 0)
        selfcrc = body + [c >> 8, c & 0xFF]
        for val in (zero, selfcrc):
            nseg = (len(val) + 6) // 7
            mk(len(val), value=val, crc=True, srvcrc=True)
            for k in sorted({1, nseg, (nseg + 1) // 2}):
                mk(len(val), value=val, flip=[k], crc=True, srvcrc=True, buffering=1024, reads=[])
                mk(len(val), value=val, lose=[k], crc=True, srvcrc=True, buffering=1024, reads=[])
            mk(len(val), value=val, wrongcrc=True, crc=True, srvcrc=True)
    # an upload without CRC on the same client first, then the disturbed one with CRC
    for n in (8, 20, 50, 200):
        nseg = (n + 6) // 7
        mk(n, crc=True, srvcrc=True, pre_crc_off=True)
        for k in sorted({1, nseg, (nseg + 1) // 2}):
            mk(n, flip=[k], crc=True, srvcrc=True, buffering=1024, reads=[], pre_crc_off=True)
            mk(n, lose=[k], crc=True, srvcrc=True, buffering=1024, reads=[], pre_crc_off=True)
        mk(n, wrongcrc=True, crc=True, srvcrc=True, pre_crc_off=True)
    for _ in range(100 if tier == "quick" else 1500):
        n = rng.randrange(8, 1200)
        nseg = (n + 6) // 7
        mk(n, lose=sorted(rng.sample(range(1, nseg + 1), min(nseg, rng.randrange(1, 3)))) if rng.random() < 0.6 else [],
           flip=[rng.randrange(1, nseg + 1)] if rng.random() < 0.5 else [], crc=True, srvcrc=True)
    return cases


def main():
    args = parse_args(PROP)
    v = Verdict(PROP, args)
    mc = tlc.run_tlc("MC_SdoBlock", "MC_SdoBlock.cfg" if args.tier == "quick" else
                     "MC_SdoBlock_thorough.cfg", workers=args.jobs, timeout=3000)
    if not mc.ok:
        v.report({"clause": "model:" + str(mc.violated)}, f"MC_SdoBlock violates {mc.violated}",
                 {"tlc_tail": mc.stdout[-3000:]})
    if args.replay:
        import json
        cases = [json.load(open(args.replay))["case"]]
    else:
        cases = gen_cases(args.tier, args.seed)
    results = run_cases("harness.drv_sdo_block:run_case", cases, jobs=args.jobs, timeout=60)
    traces = [r if not r.get("hang") else {"value": [], "srvcrc": True, "ev": [{"e": "hang", "n": 1}]}
              for r in results]
    val = tlc.validate_traces("Trace_SdoBlock", traces, cfg="Trace.cfg", jobs=args.jobs)
    for rej in val.rejects:
        c = cases[rej.index]
        dist = bool(c.get("lose") or c.get("flip") or c.get("wrongcrc") or c.get("wrongend") or c.get("wrongend_ss") is not None)
        sig = {"clause": rej.why, "disturbed": dist, "crc": bool(c["crc"] and c["srvcrc"]),
               "small_buffer": c["buffering"] not in (0, 1024) and c["buffering"] < 7,
               "hang": bool(results[rej.index].get("hang"))}
        v.report(sig, f"{rej.why} [len={len(c['value'])} crc={c['crc']}/{c['srvcrc']} lose={c.get('lose')} "
                      f"flip={c.get('flip')} wrongcrc={c.get('wrongcrc')} wrongend={c.get('wrongend')}/{c.get('wrongend_ss')} "
                      f"buffering={c['buffering']} reads={c['reads']}] event={str(rej.event)[:200]}",
                 {"case": c, "step": rej.step, "why": rej.why, "spec_state": rej.state,
                  "trace_tail": traces[rej.index]["ev"][max(0, rej.step - 4):rej.step + 1]})
    # observation (not alarmed): disturbed uploads without CRC that returned different data
    obs = 0
    outcome = {}
    for c, t in zip(cases, traces):
        dist = bool(c.get("lose") or c.get("flip") or c.get("wrongcrc") or c.get("wrongend") or c.get("wrongend_ss") is not None)
        end = t["ev"][-1]
        key = ("disturbed" if dist else "clean") + ("+crc" if c["crc"] and c["srvcrc"] else "") + ":" + end["e"]
        outcome[key] = outcome.get(key, 0) + 1
        if dist and not (c["crc"] and c["srvcrc"]) and end["e"] == "ret" and end["data"] != c["value"]:
            obs += 1
    if obs:
        v.notes.append(f"observation: {obs} disturbed uploads WITHOUT CRC returned data that differs from the value "
                       f"(outside the property's CRC-scoped clause; recorded, not alarmed)")
    cov = {"states": mc.distinct, "transitions": mc.generated,
           "traces_validated_against_impl": val.traces, "samples": [traces[min(1, len(traces) - 1)]["ev"][:8]],
           "trace_events": val.events, "outcomes": outcome, "rejected": len(val.rejects),
           "no_crc_disturbed_wrong_data_observed": obs}
    return v.finish("model_checking", cov, [
        "reference block server simulator is untrusted: initiate response, segments and end frame are judged by SdoBlock operators (CRC recomputed in TLA+)",
        "disturbed cases are judged only with CRC negotiated (property text); without CRC they are observations",
        "virtual time"])


if __name__ == "__main__":
    main_wrapper(main)
