"""C04 -- the data type codec is the exact CiA 301 representation and never silently wraps.

Leg A: MC_Codec -- TLC checks the algebra of the TLA+ reference itself over all 8/16-bit values.
Leg C: a table dumped from the real ODVariable.encode_raw / decode_raw / len() is judged row by
       row by TLC against Codec.tla (Table_Codec)."""
import random
import struct

from harness import enc, tlc
from harness.common import Verdict, main_wrapper, parse_args
from harness.tv import tv

PROP = "C04"
REALS = [enc.REAL32, enc.REAL64]


def var_of(dt):
    from canopen.objectdictionary import ODVariable
    v = ODVariable("x", 0x2000, 0)
    v.data_type = dt
    return v


def row_enc(dt, value, limits=None):
    v = var_of(dt)
    if limits is not None:
        # advisory limits of the dictionary entry: a value outside them is still encoded
        v.min, v.max = limits
    try:
        out = v.encode_raw(value)
        return {"t": dt, "op": "enc", "v": tv(value), "ok": True, "out": list(bytes(out))}
    except Exception:
        return {"t": dt, "op": "enc", "v": tv(value), "ok": False, "out": []}


def row_henc(dt, value):
    try:
        out = enc.encode(dt, value)
        return {"t": dt, "op": "henc", "v": tv(value), "ok": True, "out": list(out)}
    except Exception:
        return {"t": dt, "op": "henc", "v": tv(value), "ok": False, "out": []}


def row_dec(dt, b, var=None):
    v = var_of(dt) if var is None else var
    v.data_type = dt          # (a dictionary entry whose type is assigned later, or assigned again)
    try:
        val = v.decode_raw(bytes(b))
        return {"t": dt, "op": "dec", "b": list(b), "ok": True, "v": tv(val)}
    except Exception:
        return {"t": dt, "op": "dec", "b": list(b), "ok": False, "v": {"k": "none"}}


def row_reenc(dt, b):
    v = var_of(dt)
    try:
        out = v.encode_raw(v.decode_raw(bytes(b)))
        return {"t": dt, "op": "reenc", "b": list(b), "ok": True, "out": list(bytes(out))}
    except Exception:
        return {"t": dt, "op": "reenc", "b": list(b), "ok": False, "out": []}


def int_values(rng, dt, tier):
    size, signed = enc.INT[dt]
    bits = 8 * size
    lo, hi = enc.int_range(dt)
    if bits <= 16 and (bits == 8 or tier == "thorough"):
        vals = set(range(lo - 3, hi + 4))
    else:
        vals = set()
        for p in range(0, bits + 2):
            for d in (-2, -1, 0, 1, 2):
                vals.add((1 << p) + d)
                vals.add(-(1 << p) + d)
        for edge in (lo, hi, 0):
            for d in range(-3, 4):
                vals.add(edge + d)
        if bits == 16:
            vals.update(range(lo - 3, hi + 4, 7))
        for _ in range(300 if tier == "quick" else 3000):
            vals.add(rng.randint(lo, hi))
            vals.add(rng.randint(lo * 2 - 5, hi * 2 + 5))
        # far outside: every power of two up to 2^66 (alone, and on top of an in-range value), both signs,
        # random 64- and 72-bit numbers (a range test that looks at part of the surplus bits only)
        for p in range(bits, 67):
            for base in (0, 5, rng.randint(0, hi)):
                vals.add((1 << p) + base)
                vals.add(-(1 << p) - base)
        for _ in range(40 if tier == "quick" else 400):
            vals.add(rng.getrandbits(64))
            vals.add(-rng.getrandbits(63))
            vals.add(rng.getrandbits(72))
            vals.add(rng.getrandbits(8) << rng.randrange(bits, 65))
        vals.update([hi + 1, lo - 1, hi + 2, 1 << bits, (1 << bits) + 1, -(1 << bits), 1 << 64, -(1 << 63) - 1,
                     (1 << 64) - 1])
    return sorted(vals)


def real_values(rng, dt, tier):
    out = [0.0, -0.0, 1.0, -1.0, 0.5, 1.5, -2.25, float("inf"), float("-inf")]
    if dt == enc.REAL64:
        out += [5e-324, -5e-324, 2.2250738585072014e-308, 2.225073858507201e-308, 1.7976931348623157e308,
                -1.7976931348623157e308, 0.1, 1e100, 3.141592653589793, 2.0 ** -1074 * 12345, 1e-310]
        for _ in range(200 if tier == "quick" else 3000):
            out.append(struct.unpack("<d", rng.getrandbits(64).to_bytes(8, "little"))[0])
    else:
        pats = [0x00000001, 0x80000001, 0x007FFFFF, 0x00800000, 0x7F7FFFFF, 0xFF7FFFFF, 0x3F800001,
                0x00400000, 0x00000100, 0x33333333]
        for _ in range(200 if tier == "quick" else 3000):
            pats.append(rng.getrandbits(32))
        for p in pats:
            out.append(struct.unpack("<f", p.to_bytes(4, "little"))[0])
    return [x for x in out if x == x]


def build_rows(tier, seed):
    import logging
    logging.disable(logging.CRITICAL)
    rng = random.Random(seed * 65537 + 4)
    rows = []
    for dt in sorted(enc.INT):
        size, _ = enc.INT[dt]
        rows.append({"t": dt, "op": "len", "bits": len(var_of(dt))})
        for val in int_values(rng, dt, tier):
            rows.append(row_enc(dt, val))
            if abs(val) < 1 << 70:
                rows.append(row_henc(dt, val)) if enc.int_range(dt)[0] <= val <= enc.int_range(dt)[1] else None
        # decode: all patterns for 1 byte, boundary + random patterns of the right length,
        # every wrong length 0..9
        pats = set()
        if size == 1:
            pats.update(bytes([i]) for i in range(256))
        elif size == 2 and tier == "thorough":
            pats.update(i.to_bytes(2, "little") for i in range(65536))
        for _ in range(400 if tier == "quick" else 4000):
            pats.add(rng.getrandbits(8 * size).to_bytes(size, "little"))
        for fill in (0x00, 0xFF, 0x80, 0x7F):
            pats.add(bytes([fill]) * size)
            pats.add(bytes([fill]) * (size - 1) + b"\x80")
            pats.add(bytes([fill]) * (size - 1) + b"\x7f")
            pats.add(b"\x01" + bytes([fill]) * (size - 1))
        for b in sorted(pats):
            rows.append(row_dec(dt, b))
            rows.append(row_reenc(dt, b))
        for n in range(0, 10):
            if n != size:
                for _ in range(3):
                    rows.append(row_dec(dt, bytes(rng.getrandbits(8) for _ in range(n))))
                    # a refused decode must leave nothing behind for the next one
                    b = bytes([1 + k for k in range(size)])
                    rows.append(row_dec(dt, b))
                    rows.append(row_reenc(dt, b))
        lo, hi = enc.int_range(dt)
        for val in (lo, hi, 0, 5, -5 if lo < 0 else 6):
            rows.append(row_enc(dt, val, limits=(-1 if lo < 0 else 1, 3)))
    # one dictionary entry whose data type is assigned again between decodes
    shared = var_of(0x3)
    seq = [(0x3, b"\xff\xff"), (0x6, b"\xff\xff"), (0x7, b"\x01\x02\x03\x04"), (0x3, b"\x00\x80"), (0x8, b"\x00\x00\x80\x3f"),
           (0x7, b"\x00\x00\x80\x3f"), (0x2, b"\x80"), (0x5, b"\x80"), (0x10, b"\xff\xff\xff"), (0x16, b"\xff\xff\xff"),
           (0x6, b"\x01"), (0x5, b"\x01\x02"), (0x4, b"\xff\xff\xff\xff"), (0x11, bytes(8)), (0x15, b"\x01" * 8)]
    for dt, b in seq + seq[::-1]:
        rows.append(row_dec(dt, b, var=shared))
    rows = [r for r in rows if r is not None]
    # BOOLEAN
    rows.append({"t": enc.BOOLEAN, "op": "len", "bits": len(var_of(enc.BOOLEAN))})
    for b in (True, False):
        rows.append(row_enc(enc.BOOLEAN, b))
        rows.append(row_henc(enc.BOOLEAN, b))
    for i in (0, 1):
        rows.append(row_dec(enc.BOOLEAN, bytes([i])))
    for n in (0, 2, 3, 4):
        rows.append(row_dec(enc.BOOLEAN, bytes(n)))
    # REAL32 / REAL64
    for dt in REALS:
        rows.append({"t": dt, "op": "len", "bits": len(var_of(dt))})
        for f in real_values(rng, dt, tier):
            rows.append(row_enc(dt, f))
            rows.append(row_henc(dt, f))
        for f in (0.0, 2.5, -7.25, float("inf"), float("-inf"), 1.0):
            rows.append(row_enc(dt, f, limits=(-1.0, 1.0)))
            rows.append(row_enc(dt, f, limits=(-1, 1)))
        size = enc.NUM_SIZE[dt]
        for _ in range(300 if tier == "quick" else 3000):
            rows.append(row_dec(dt, rng.getrandbits(8 * size).to_bytes(size, "little")))
        for n in range(0, 10):
            if n != size:
                rows.append(row_dec(dt, bytes(rng.getrandbits(8) for _ in range(n))))
    # strings: full ASCII / BMP, no trailing NUL (decode_raw strips them by design), no surrogates
    def text(n, hi):
        s = ""
        while len(s) < n:
            c = rng.randrange(0 if hi > 200 else 0, hi)
            if 0xD800 <= c <= 0xDFFF:
                continue
            s += chr(c)
        if s.endswith("\x00"):
            s = s[:-1] + "A"
        return s
    for _ in range(150 if tier == "quick" else 2000):
        s = text(rng.randrange(0, 40), 128)
        rows.append(row_enc(enc.VSTR, s))
        rows.append(row_henc(enc.VSTR, s))
        rows.append(row_dec(enc.VSTR, s.encode("ascii")))
        u = text(rng.randrange(0, 40), 0x10000)
        rows.append(row_enc(enc.USTR, u))
        rows.append(row_henc(enc.USTR, u))
        rows.append(row_dec(enc.USTR, u.encode("utf_16_le")))
        b = bytes(rng.getrandbits(8) for _ in range(rng.randrange(0, 30)))
        rows.append(row_enc(enc.OSTR, b))
        rows.append(row_dec(enc.DOMAIN, b))
    # every ASCII / sampled BMP code point on its own (plus a guard character)
    for c in range(0, 128):
        rows.append(row_enc(enc.VSTR, chr(c) + "x"))
        rows.append(row_dec(enc.VSTR, bytes([c, 0x78])))
    step = 257 if tier == "quick" else 13
    special = [0xFEFF, 0xFFFE, 0xFFFF, 0xFFFD, 0xD7FF, 0xE000, 0x7F, 0x80, 0xFF, 0x100, 0x2028, 0x0A, 0x0D, 0x1A]
    for c in special:      # byte-order marks and other code points decoders treat specially, first and last
        for s in (chr(c) + "ab", "ab" + chr(c), chr(c) * 2 + "x"):
            rows.append(row_enc(enc.USTR, s))
            rows.append(row_dec(enc.USTR, s.encode("utf_16_le")))
    for c in list(range(0, 0x10000, step)) + special:
        if 0xD800 <= c <= 0xDFFF:
            continue
        rows.append(row_enc(enc.USTR, chr(c) + "x"))
        rows.append(row_dec(enc.USTR, (chr(c) + "x").encode("utf_16_le")))
    return rows


def main():
    args = parse_args(PROP)
    v = Verdict(PROP, args)
    mc = tlc.run_tlc("MC_Codec", "MC_Codec.cfg", workers=4, timeout=1200)
    if not mc.ok:
        v.report({"clause": "model:" + str(mc.violated)}, f"MC_Codec violates {mc.violated}",
                 {"tlc_tail": mc.stdout[-2000:]})
    rows = build_rows(args.tier, args.seed)
    bad, wall = tlc.check_table("Table_Codec", rows, jobs=args.jobs)
    for idx, why in bad:
        r = rows[idx]
        sig = {"clause": why, "type": r["t"], "op": r["op"]}
        v.report(sig, f"{why}: row {r}", {"row": r})
    ops = {}
    for r in rows:
        ops[r["op"]] = ops.get(r["op"], 0) + 1
    cov = {"states": mc.distinct, "transitions": mc.generated,
           "traces_validated_against_impl": len(rows), "samples": rows[5:8] + rows[-2:],
           "rows_by_op": ops, "bad_rows": len(bad),
           "note": "each 'trace' is one table row (pure function: no state); the rows are produced by the real codec and judged by TLC against Codec.tla"}
    return v.finish("model_checking", cov, [
        "pure-function property: TLA+ is an executable reference semantics, TLC the evaluator; strength = the enumerated/sampled domain",
        "REAL32 rows use values exactly representable in binary32; NaN payloads are not compared",
        "strings without trailing NUL (decode_raw strips them by documented design) and without surrogates"])


if __name__ == "__main__":
    main_wrapper(main)
