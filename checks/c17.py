"""C17 -- periodic transmissions run exactly when and with what the API state says.

Leg A: MC_Periodic (all call sequences to depth 5 over the four producers).  Leg B: TLC-generated
call sequences (simulation, depth 25) replayed on a real Network/LocalNode/RemoteNode with a harness
bus (both task flavours).  Leg C: seeded random sequences with periods / heartbeat times over their
ranges; the live-task set after every call is judged by TLC (Trace_Periodic)."""
import json
import random

from harness import tlc
from harness.common import Verdict, main_wrapper, parse_args
from harness.pool import run_cases

PROP = "C17"


def random_ops(rng, n):
    ops = []
    for _ in range(n):
        r = rng.randrange(13)
        per = rng.choice([0, 1000, 10000, 250000, 1000000, 5000000, rng.randrange(1, 60000000)])
        if r == 0:
            ops.append({"op": "sync_start", "period_us": per})
        elif r == 1:
            ops.append({"op": "sync_stop"})
        elif r == 2:
            ops.append({"op": "pdo_start", "period_us": per})
        elif r == 3:
            ops.append({"op": "pdo_stop"})
        elif r == 12:
            ops.append({"op": "pdo_cob", "id": rng.choice([0x181, 0x281, 0x1ABCDE, 0x7FF, 0x800, 0xFFF, 0x1000, rng.randrange(1, 0x800), rng.randrange(0x800, 0x2000)])})
            if rng.random() < 0.7:      # restart with the same period
                ops.append({"op": "pdo_start", "period_us": rng.choice([0, 10000, 250000])})
        elif r == 4:
            # (values that differ from the previous one in the high nibble only now and then)
            ops.append({"op": "pdo_set", "d": [rng.choice([rng.randrange(256), 0x05, 0xA5, 0x0F, 0xF0]), rng.randrange(256)]})
        elif r == 5:
            ops.append({"op": "hb_start", "ms": rng.choice([0, 1, 100, 1000, 65535, rng.randrange(65536)])})
        elif r == 6:
            ops.append({"op": "hb_stop"})
        elif r == 7:
            if len(ops) % 3 == 0:
                ops.append({"op": "write1017_bad", "ms": rng.choice([0, 50, 200]), "len": rng.choice([1, 4, 4])})
            else:
                ops.append({"op": "write1017", "ms": rng.choice([0, 0, 1, 100, 65535, rng.randrange(65536)])})
        elif r in (8, 9):
            ops.append({"op": "nmt", "state": rng.choice([0, 4, 5, 127]), "api": rng.random() < 0.6,
                        "target": rng.choice([None, 0])})
        elif r == 10:
            ops.append({"op": "ng_start", "period_us": per or 1000} if rng.random() < 0.7 else {"op": "ng_stop"})
        else:
            ops.append({"op": "disconnect"} if rng.random() < 0.3 else {"op": "pdo_start", "period_us": per})
    return ops


def add_extras(ops, seed):
    """a second stream of choices (the sequences above stay what they were): COB-ID changes of the SYNC
    producer, and frames with the PDO map's own COB-ID reaching the network (echo / second transmitter)"""
    r2 = random.Random(seed)
    out, ts = [], 2
    for op in ops:
        out.append(op)
        x = r2.random()
        if x < 0.06:
            out.append({"op": "sync_cob", "id": r2.choice([0x80, 0x81, 0x100, 0x7F, 0x1ABC])})
            if r2.random() < 0.7:
                out.append({"op": "sync_start", "period_us": r2.choice([0, 10000, 250000])})
        elif x < 0.16:
            for _ in range(r2.choice([1, 2, 2, 3])):
                ts += r2.randrange(1, 9)
                out.append({"op": "pdo_echo", "d": [r2.randrange(256), r2.randrange(256)], "ts": ts})
            if r2.random() < 0.6:
                out.append({"op": "pdo_start", "period_us": 0})
    return out


def main():
    args = parse_args(PROP)
    v = Verdict(PROP, args)
    mc = tlc.run_tlc("MC_Periodic", "MC_Periodic.cfg", workers=args.jobs, timeout=1200)
    if not mc.ok:
        v.report({"clause": "model:" + str(mc.violated)}, f"MC_Periodic violates {mc.violated}", {"tlc_tail": mc.stdout[-3000:]})
    gen = tlc.simulate("MC_Periodic", "Gen_Periodic.cfg", num=100 if args.tier == "quick" else 2000, depth=26, seed=args.seed)
    behs = {json.dumps(b, sort_keys=True): b for b in tlc.beh_json(gen)}
    behs = [behs[k] for k in sorted(behs)][:300 if args.tier == "quick" else 5000]
    rng = random.Random(args.seed * 13 + 17)
    if args.replay:
        cases = [json.load(open(args.replay))["case"]]
    else:
        cases = []
        for i, b in enumerate(behs):
            cases.append({"ops": b, "modifiable": i % 2 == 0, "nid": 1, "src": "tlc",
                          "pdomap": ["ltpdo", "ltpdo", "rrpdo", "rrpdo", "rtpdo", "rtpdo", "lrpdo", "lrpdo"][i % 8],
                          "pdolayout": "straddle" if i % 3 == 1 else "plain"})
        for i in range(200 if args.tier == "quick" else 4000):
            cases.append({"ops": random_ops(rng, rng.choice([10, 40, 200])), "modifiable": i % 2 == 0,
                          "nid": rng.choice([1, 5, 100]), "src": "random",
                          "pdomap": ["ltpdo", "ltpdo", "rrpdo", "rrpdo", "rtpdo", "rtpdo", "lrpdo", "lrpdo"][i % 8],
                          "pdolayout": "straddle" if i % 3 == 1 else "plain"})
    if not args.replay:
        for i, c in enumerate(cases):
            if i % 2:
                c["ops"] = add_extras(c["ops"], args.seed * 100003 + i)
    results = run_cases("harness.drv_periodic:run_case", cases, jobs=args.jobs, timeout=120)
    if any(r.get("hang") for r in results):
        raise RuntimeError("driver hang")
    val = tlc.validate_traces("Trace_Periodic", results, cfg="Trace.cfg", jobs=args.jobs)
    for rej in val.rejects:
        ev = rej.event or {}
        # which producers have more than one live task?
        ids = [t["id"] for t in ev.get("live", [])]
        sig = {"clause": rej.why.split(" (after")[0], "ev": ev.get("e"), "dup_sync": ids.count(0x80) > 1,
               "modifiable": cases[rej.index]["modifiable"]}
        v.report(sig, f"{rej.why}: {str(ev)[:500]} spec={rej.state[:600]}",
                 {"case": cases[rej.index], "step": rej.step, "why": rej.why, "spec_state": rej.state, "event": ev})
    src = {}
    for c in cases:
        src[c["src"] + (":modifiable" if c["modifiable"] else ":restart")] = src.get(c["src"] + (":modifiable" if c["modifiable"] else ":restart"), 0) + 1
    cov = {"states": mc.distinct, "transitions": mc.generated, "traces_validated_against_impl": val.traces,
           "samples": [results[0]["ev"][:4]], "trace_events": val.events, "cases_by_source": src,
           "tlc_generated_behaviours": len(behs), "rejected": len(val.rejects)}
    return v.finish("model_checking", cov, [
        "cyclic tasks are harness objects created by bus.send_periodic (real periods are not measured: a task is live until stop())",
        "after disconnect() the harness re-attaches the bus so that the call sequence can continue"])


if __name__ == "__main__":
    main_wrapper(main)
