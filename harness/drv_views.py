"""Driver for C20: phys / desc / bits views of SDO variables (LocalNode-backed) and PDO variables."""
from __future__ import annotations

from fractions import Fraction

from harness import enc
from harness.tv import tv_int

K = 1000


def limb(x):
    d = tv_int(int(x))
    return {"neg": d["neg"], "mag": d["mag"]}


def run_case(case: dict) -> dict:
    import logging
    logging.disable(logging.CRITICAL)
    import canopen
    from canopen.objectdictionary import ODVariable
    from harness.drv_pdobits import build
    t = case["t"]
    fn, fd = case["fn"], case["fd"]
    arr_member = False
    if case["kind"] == "sdo":
        od = canopen.ObjectDictionary()
        v = ODVariable("X", 0x2000, 0)
        v.data_type = t
        od.add_object(v)
        arr_member = bool(case.get("arr_member"))
        if arr_member:
            # the variable is a member of an array that the dictionary serves on demand (only member 1
            # is described; members 2.. take everything from it)
            from canopen.objectdictionary import ODArray
            arr = ODArray("Arr", 0x2100)
            n0 = ODVariable("n", 0x2100, 0)
            n0.data_type = 0x5
            arr.add_member(n0)
            v = ODVariable("Member", 0x2100, 1)
            v.data_type = t
            arr.add_member(v)
            od.add_object(arr)
        node = canopen.LocalNode(3, od)
        var = node.sdo[0x2000]
        odv = v
    else:
        node = build([(t, 8 * enc.NUM_SIZE[t])])
        pm = node.rpdo[1]
        pm.cob_id = 0x201
        var = pm.add_variable(0x2000, 0)
        odv = var.od
    odv.factor = fn if fd == 1 else fn / fd        # an integer factor stays an int, as read from EDS / EPF
    for val, name in case["descs"]:
        odv.add_value_description(val, name)
    for k, (name, bits) in enumerate(case["bitdefs"]):
        # every other named field is defined most significant bit first
        odv.add_bit_definition(name, list(bits)[::-1] if case.get("desc_defs") and k % 2 else list(bits))
    if case["kind"] == "sdo" and arr_member:
        var = node.sdo[0x2100][3]       # created now, from the fully described member 1
    # a sibling entry that defines the same field names on other bits, and is polled by name as well
    from canopen.objectdictionary import ODVariable as _ODV
    sib = _ODV("sibling", 0x2FFF, 0)
    sib.data_type = t
    _width = 8 * enc.NUM_SIZE[t]
    for name, bits in case["bitdefs"]:
        sib.add_bit_definition(name, sorted({(b + 1) % _width for b in bits}))
    ev = []
    var.raw = 0
    lb = limb
    if case.get("image"):
        # bit fields of a signed variable: raw values are logged as their two's-complement image
        _w = 8 * enc.NUM_SIZE[t]
        lb = lambda x: limb(x % (1 << _w))     # noqa: E731
    fn_api = case.get("fn_api", False)
    step = [0]

    def use_fn():
        # the function spellings read(fmt) / write(value, fmt) on every other access of such cases
        step[0] += 1
        return fn_api and step[0] % 2 == 0

    held = [None]
    for op in case["ops"]:
        o = op["op"]
        e = {"e": o, "ok": True}
        if o not in ("bits_set", "bits_get"):
            held[0] = None
        try:
            if o == "setraw":
                e["v"] = lb(op["v"])
                if use_fn():
                    var.write(op["v"], fmt="raw") if step[0] % 4 else var.write(op["v"])
                else:
                    var.raw = op["v"]
            elif o == "setdata":
                # the value changes by a path other than .raw on this object (a received PDO / the
                # device changing its own object / a write through .data)
                e["e"] = "setraw"
                e["v"] = lb(op["v"])
                size = enc.NUM_SIZE[t]
                b = int(op["v"]).to_bytes(size, "little", signed=enc.INT[t][1])
                if case["kind"] == "sdo":
                    if op.get("how") == "other":
                        (node.sdo[0x2100][3] if arr_member else node.sdo[0x2000]).data = b
                    else:
                        var.data = b
                else:
                    pm.on_message(pm.cob_id, bytearray(b), 1.0) if op.get("how") == "other" and pm.cob_id else var.set_data(b)
            elif o == "phys_set":
                e["vn"], e["vd"] = op["vn"], op["vd"]
                pv = op["vn"] // op["vd"] if op["vn"] % op["vd"] == 0 and op.get("as_int", True) else op["vn"] / op["vd"]
                if use_fn():
                    var.write(pv, fmt="phys")
                else:
                    var.phys = pv
                e["after"] = lb(var.read("raw") if use_fn() else var.raw)
            elif o == "phys_get":
                p = var.read(fmt="phys") if use_fn() else var.phys
                e["P"] = int(round(Fraction(p) * fd * K))
            elif o == "desc_set":
                e["name"] = op["name"]
                if use_fn():
                    var.write(op["name"], fmt="desc")
                else:
                    var.desc = op["name"]
                e["after"] = lb(var.read() if use_fn() else var.raw)
            elif o == "refactor":
                e["fn"], e["fd"] = op["fn"], op["fd"]
                fn, fd = op["fn"], op["fd"]
                var.od.factor = fn if fd == 1 else fn / fd
            elif o == "redesc":
                e["val"], e["name"] = op["val"], op["name"]
                var.od.add_value_description(op["val"], op["name"])
            elif o == "desc_get":
                e["name"] = var.read(fmt="desc") if use_fn() else var.desc
            elif o in ("bits_set", "bits_get"):
                sp = op["spelling"]
                bits = list(op["bits"])
                e["spelling"], e["bits"], e["name"] = sp, bits, op.get("name", "")
                if sp == "int":
                    key = bits[0]
                elif sp == "list":
                    key = bits
                elif sp == "slice":
                    key = slice(bits[0], bits[-1] + 1)
                elif sp == "slice_step":
                    key = slice(bits[0], bits[-1] + 1, 1)
                elif sp == "list_desc":          # the same bits, most significant first
                    key = bits[::-1]
                elif sp == "slice_down":
                    # (a slice that runs down to bit 0 would need an open end, which the library's
                    #  range(start, stop, step) does not take: spelled as a list there)
                    key = slice(bits[-1], bits[0] - 1, -1) if bits[0] > 0 else bits[::-1]
                else:
                    key = op["name"]
                    sib.decode_bits(0, key)
                    sib.encode_bits(0, key, 0)
                # one view object kept over consecutive bit-field operations (b = var.bits; b[..] = x; b[..]):
                # it must stay in step with what it wrote itself; any other operation in between drops it
                view = held[0] if case.get("held") and held[0] is not None else var.bits
                if case.get("held"):
                    held[0] = view
                if o == "bits_set":
                    e["val"] = lb(op["val"])
                    view[key] = op["val"]
                    e["after"] = lb(var.raw)
                else:
                    e["val"] = lb(view[key])
        except Exception as exc:  # noqa
            e["ok"] = False
            held[0] = None
            e["repr"] = f"{type(exc).__name__}: {exc}"[:120]
            for k in ("after", "val", "v"):
                e.setdefault(k, lb(0))
            e.setdefault("P", 0)
            e.setdefault("name", "")
        ev.append(e)
    for i, e in enumerate(ev):
        e["n"] = i + 1
    return {"ev": ev, "fn": case["fn"], "fd": case["fd"], "K": K, "descs": [list(x) for x in case["descs"]],
            "bitdefs": [[n, list(b)] for n, b in case["bitdefs"]], "w": 8 * enc.NUM_SIZE[t]}
