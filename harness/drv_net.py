"""Driver for C10: operation sequences on a real canopen.Network; after every call the projection of
subscribers / nodes / scanner is logged, notify events carry the ordered list of callbacks that
were actually invoked (user callbacks log themselves; node handlers are logged by class-level
wrappers installed from the harness side, so that bound-method identity in the subscriber lists is
untouched)."""
from __future__ import annotations

from harness.bus import FakeBus
from harness.common import B

CALLS = []          # (label, can_id, data, ts) in invocation order
REG = {}            # id(handler object) -> (nid, gen)
_INSTALLED = False


def _install():
    global _INSTALLED
    if _INSTALLED:
        return
    _INSTALLED = True
    from canopen.emcy import EmcyConsumer
    from canopen.nmt import NmtBase, NmtSlave
    from canopen.sdo.client import SdoClient
    from canopen.sdo.server import SdoServer

    def wrap(cls, name, role_of):
        orig = getattr(cls, name)

        def wrapper(self, can_id, data, timestamp):
            reg = REG.get(id(self), (0, 0))
            nid, gen = reg[0], reg[1]
            role = reg[2] if len(reg) > 2 else role_of(self)
            CALLS.append([[1, nid, gen, role], can_id, B(data), timestamp])
            return orig(self, can_id, data, timestamp)
        wrapper.__name__ = name
        setattr(cls, name, wrapper)
    wrap(SdoClient, "on_response", lambda s: 1)
    from canopen.nmt import NmtMaster
    wrap(NmtMaster, "on_heartbeat", lambda s: 2)
    wrap(EmcyConsumer, "on_emcy", lambda s: 3)
    wrap(NmtBase, "on_command", lambda s: 6 if isinstance(s, NmtSlave) else 4)
    wrap(SdoServer, "on_request", lambda s: 5)
    from canopen.lss import LssMaster
    orig_lss = LssMaster.on_message_received

    def lss_wrapper(self, can_id, data, timestamp):
        CALLS.append([[2, 0, 0, 0], can_id, B(data), timestamp])
        return orig_lss(self, can_id, data, timestamp)
    lss_wrapper.__name__ = "on_message_received"
    LssMaster.on_message_received = lss_wrapper


def run_case(case: dict) -> dict:
    import logging
    logging.disable(logging.CRITICAL)
    import can
    import canopen
    from canopen.network import MessageListener
    _install()
    del CALLS[:]
    REG.clear()
    bus = FakeBus()
    net = canopen.Network(bus)
    ev = []
    gens = {"n": 0}
    cur_gen = {}

    def mk_cb(k, boom=False):
        def cb(can_id, data, ts):
            CALLS.append([[0, k, 0, 0], can_id, B(data), ts])
            if boom:
                raise RuntimeError("callback failure")
        return cb
    cbs = {k: mk_cb(k) for k in range(1, 9)}
    cbs[99] = mk_cb(99, boom=True)
    by_fn = {id(f): k for k, f in cbs.items()}
    roles = {"on_response": 1, "on_heartbeat": 2, "on_emcy": 3, "on_request": 5}

    def label(cb):
        if id(cb) in by_fn:
            return [0, by_fn[id(cb)], 0, 0]
        owner = getattr(cb, "__self__", None)
        name = getattr(cb, "__name__", "")
        if owner is net.lss:
            return [2, 0, 0, 0]
        if owner is not None and id(owner) in REG:
            reg = REG[id(owner)]
            nid, gen = reg[0], reg[1]
            if len(reg) > 2:
                return [1, nid, gen, reg[2]]
            if name == "on_command":
                from canopen.nmt import NmtSlave
                return [1, nid, gen, 6 if isinstance(owner, NmtSlave) else 4]
            return [1, nid, gen, roles.get(name, 9)]
        return [9, 0, 0, 0]

    def proj():
        subs = [[cid, [label(c) for c in lst]] for cid, lst in sorted(net.subscribers.items()) if lst]
        # through the mapping interface of the network (iteration, item access, length)
        nodes = [[nid, "local" if isinstance(net[nid], canopen.LocalNode) else "remote", cur_gen.get(nid, 0)]
                 for nid in sorted(net)]
        if len(net) != len(nodes) or sorted(net.nodes) != [n[0] for n in nodes]:
            nodes.append([-1, "mapping interface disagrees with network.nodes", 0])
        return {"subs": subs, "nodes": nodes, "scan": list(net.scanner.nodes)}

    def log(e, raised=False):
        e["raised"] = raised
        e.update(proj())
        ev.append(e)

    od = canopen.ObjectDictionary()
    ptasks, pbufs = [], {}
    if case.get("fixed_tasks"):
        bus.modifiable_tasks = False
    for op in case["ops"]:
        o = op["op"]
        raised = False
        try:
            if o == "sub":
                net.subscribe(op["id"], cbs[op["k"]])
                log({"e": "sub", "id": op["id"], "cb": [0, op["k"], 0, 0]})
            elif o == "unsub":
                try:
                    net.unsubscribe(op["id"], cbs[op["k"]])
                except (KeyError, ValueError):
                    raised = True
                log({"e": "unsub", "id": op["id"], "cb": [0, op["k"], 0, 0]}, raised)
            elif o == "unsub_handler":
                # the application unsubscribes one of a node's own handlers through the public interface
                node = net.nodes.get(op["nid"])
                if node is None:
                    continue
                if isinstance(node, canopen.RemoteNode):
                    cid, h = [(node.sdo.tx_cobid, node.sdo.on_response), (0x700 + node.id, node.nmt.on_heartbeat),
                              (0x80 + node.id, node.emcy.on_emcy), (0, node.nmt.on_command)][op["role"] % 4]
                else:
                    cid, h = [(node.sdo.rx_cobid, node.sdo.on_request), (0, node.nmt.on_command)][op["role"] % 2]
                lab = label(h)
                try:
                    net.unsubscribe(cid, h)
                except (KeyError, ValueError):
                    raised = True
                log({"e": "unsub", "id": cid, "cb": lab}, raised)
            elif o == "unsuball":
                try:
                    net.unsubscribe(op["id"])
                except (KeyError, ValueError):
                    raised = True
                log({"e": "unsuball", "id": op["id"]}, raised)
            elif o == "add":
                gens["n"] += 1
                g = gens["n"]
                nid = op["nid"]
                if op["kind"] == "remote":
                    node = canopen.RemoteNode(nid, od)
                    REG[id(node.sdo)] = REG[id(node.nmt)] = REG[id(node.emcy)] = (nid, g)
                    for k, tx in enumerate(op.get("extra", []), 1):   # channels added before the node joins the network
                        REG[id(node.add_sdo(tx + 0x80, tx))] = (nid, g, 10 + k)
                else:
                    node = canopen.LocalNode(nid, od)
                    REG[id(node.sdo)] = REG[id(node.nmt)] = (nid, g)
                how = op.get("how", "add")
                try:
                    if how == "int" and not op.get("extra"):
                        # node object created by the network from a node id
                        node = net.add_node(nid, od) if op["kind"] == "remote" else net.create_node(nid, od)
                        if op["kind"] == "remote":
                            REG[id(node.sdo)] = REG[id(node.nmt)] = REG[id(node.emcy)] = (nid, g)
                        else:
                            REG[id(node.sdo)] = REG[id(node.nmt)] = (nid, g)
                    elif how == "setitem":
                        net[nid] = node
                    elif op["kind"] == "remote":
                        net.add_node(node)
                    else:
                        net.create_node(node)
                    cur_gen[nid] = g
                except Exception:  # noqa
                    raised = True
                log({"e": "add", "kind": op["kind"], "nid": nid, "gen": g,
                     "extra": list(op.get("extra", [])) if op["kind"] == "remote" else []}, raised)
            elif o == "readd":
                node = net.nodes.get(op["nid"])
                if node is None:
                    continue
                try:
                    if op.get("how") == "setitem":
                        net[op["nid"]] = node
                    elif isinstance(node, canopen.RemoteNode):
                        net.add_node(node)
                    else:
                        net.create_node(node)
                except Exception:  # noqa
                    raised = True
                extra = [c.tx_cobid for c in node.sdo_channels[1:]] if isinstance(node, canopen.RemoteNode) else []
                log({"e": "add", "kind": "remote" if isinstance(node, canopen.RemoteNode) else "local", "nid": op["nid"],
                     "gen": cur_gen[op["nid"]], "extra": extra}, raised)
            elif o == "addsdo":
                node = net.nodes.get(op["nid"])
                if node is None or not isinstance(node, canopen.RemoteNode):
                    continue
                try:
                    client = node.add_sdo(op["tx"] + 0x80, op["tx"])
                    REG[id(client)] = (op["nid"], cur_gen[op["nid"]], 9 + len(node.sdo_channels))
                except Exception:  # noqa
                    raised = True
                log({"e": "addsdo", "nid": op["nid"], "tx": op["tx"]}, raised)
            elif o == "remove":
                if op["nid"] not in net.nodes:
                    continue
                try:
                    del net[op["nid"]]
                    cur_gen.pop(op["nid"], None)
                except Exception:  # noqa
                    raised = True
                log({"e": "remove", "nid": op["nid"]}, raised)
            elif o == "notify":
                del CALLS[:]
                d = bytes(op["d"])
                try:
                    net.notify(op["id"], bytearray(d), op["ts"])
                except Exception:  # noqa
                    raised = True
                log({"e": "notify", "id": op["id"], "d": B(d), "ts": op["ts"],
                     "delivered": [list(c) for c in CALLS]}, raised)
            elif o == "listener":
                del CALLS[:]
                d = bytes(op["d"])
                msg = can.Message(arbitration_id=op["id"], data=d, timestamp=op["ts"],
                                  is_extended_id=op["id"] > 0x7FF, is_error_frame=op.get("err", False),
                                  is_remote_frame=op.get("rtr", False))
                if op.get("rtr"):
                    d = b""
                boom = any(c is cbs[99] for c in net.subscribers.get(op["id"], []))
                try:
                    net.listeners[0].on_message_received(msg)
                except Exception:  # noqa
                    raised = True
                log({"e": "listener", "id": op["id"], "d": B(d), "ts": op["ts"], "err": bool(op.get("err")),
                     "rtr": bool(op.get("rtr")), "boom": boom, "delivered": [list(c) for c in CALLS]}, raised)
            elif o == "send":
                n0 = len(bus.sent)
                d = bytes(op["d"])
                try:
                    net.send_message(op["id"], d, op.get("remote", False))
                except Exception:  # noqa
                    raised = True
                m = bus.sent[-1] if len(bus.sent) > n0 else None
                log({"e": "send", "id": op["id"], "d": B(d), "remote": bool(op.get("remote", False)),
                     "msg": {"id": m.arbitration_id, "ext": bool(m.is_extended_id),
                             "rtr": bool(m.is_remote_frame), "d": B(m.data)} if m is not None else
                            {"id": -1, "ext": False, "rtr": False, "d": []}}, raised or m is None)
            elif o == "scanreset":
                net.scanner.reset()
                log({"e": "scanreset"})
            elif o in ("pstart", "pupdate", "pstop"):
                # the raw periodic API (Network.send_periodic -> PeriodicMessageTask): what the bus is asked
                # to send is the data given last, whatever the caller does with its own buffer afterwards
                if o == "pstart":
                    buf = bytearray(op["d"])
                    given = buf if op.get("as") == "bytearray" else bytes(buf)
                    ptasks.append(net.send_periodic(op["id"], given, op["period_ms"] / 1000.0, op.get("remote", False)))
                elif o == "pupdate":
                    buf = bytearray(op["d"])
                    if op.get("as") == "same" and id(ptasks[op["h"] - 1]) in pbufs:
                        # the caller's one buffer, changed in place and handed over again (what the PDO layer does)
                        buf = pbufs[id(ptasks[op["h"] - 1])]
                        buf[:] = bytes(op["d"])
                    given = buf if op.get("as") in ("bytearray", "same") else bytes(buf)
                    ptasks[op["h"] - 1].update(given)
                    pbufs[id(ptasks[op["h"] - 1])] = buf
                else:
                    ptasks[op["h"] - 1].stop()
                if op.get("scribble"):
                    for i in range(len(buf)):
                        buf[i] ^= 0xFF
                    if op.get("as") == "same":
                        pbufs.pop(id(ptasks[op["h"] - 1]), None)
                per = []
                for t in ptasks:
                    run = [ft for ft in bus.tasks if ft.running and ft.msg is t.msg]
                    if len(run) == 1:
                        ft = run[0]
                        per.append({"n": 1, "id": ft.msg.arbitration_id, "frozen": B(ft.frozen), "cur": B(ft.msg.data),
                                    "rtr": bool(ft.msg.is_remote_frame), "ext": bool(ft.msg.is_extended_id),
                                    "period": int(round(ft.period * 1e6))})
                    else:
                        per.append({"n": len(run), "id": 0, "frozen": [], "cur": [], "rtr": False, "ext": False, "period": 0})
                e = {"e": o, "h": op.get("h", len(ptasks)), "per": per}
                if o == "pstart":
                    e.update(id=op["id"], d=B(bytes(op["d"])), remote=bool(op.get("remote", False)), period=op["period_ms"] * 1000)
                elif o == "pupdate":
                    e.update(d=B(bytes(op["d"])))
                log(e)
        except Exception as exc:  # noqa  driver-level problem
            raise
    for i, e in enumerate(ev):
        e["n"] = i + 1
    return {"ev": ev}
