"""Untrusted CiA 301 SDO server simulator (expedited + segmented).  Every response it produces is
in the trace and is judged by SdoCore.SrvJudge, so an error here shows up as a rejected trace."""
from __future__ import annotations

import random
import struct

AB = {
    "toggle": 0x05030000, "cmd": 0x05040001, "wo": 0x06010001, "ro": 0x06010002,
    "noobj": 0x06020000, "nosub": 0x06090011, "len": 0x06070010, "nodata": 0x060A0023,
}


class RefSdoServer:
    def __init__(self, od, style=None, rng=None):
        """od: list of dict(idx, sub, num, size, acc, def, val, rcb) with byte lists or [-1]."""
        self.od = od
        self.style = {"small": "exp", "size_ind": True, "chunk": "full", "refuse": "end"}
        self.style.update(style or {})
        self.rng = rng or random.Random(0)
        self.store = {}
        self.ph = "idle"
        self.idx = self.sub = 0
        self.buf = b""
        self.pos = 0
        self.tog = 0

    # -- object access ------------------------------------------------------------------------
    def _find(self, idx, sub):
        hit = [e for e in self.od if e["idx"] == idx]
        if not hit:
            return "noobj"
        for e in hit:
            if e["sub"] == sub:
                return e
        return "nosub"

    def _cur(self, e):
        key = (e["idx"], e["sub"])
        for src in (e["rcb"], self.store.get(key), e["val"], e["def"]):
            if src is not None and src != [-1]:
                return bytes(src)
        return None

    def _abort(self, idx, sub, code):
        self.ph = "idle"
        return [struct.pack("<BHBL", 0x80, idx, sub, AB[code])]

    def _write_refusal(self, idx, sub, n, static_only=False):
        e = self._find(idx, sub)
        if isinstance(e, str):
            return e
        if "w" not in e["acc"]:
            return "ro"
        if not static_only and e["num"] and e["size"] != n:
            return "len"
        return None

    # -- protocol -------------------------------------------------------------------------------
    def on_request(self, q: bytes) -> list:
        if len(q) != 8:
            return [struct.pack("<BHBL", 0x80, 0, 0, 0x08000000)]
        cs = q[0] >> 5
        idx, sub = struct.unpack_from("<HB", q, 1)
        if cs == 2 or (cs == 5 and q[0] & 3 == 0):
            return self._upload_init(idx, sub)
        if cs == 3:
            if self.ph != "ul":
                return self._abort(self.idx, self.sub, "cmd")
            return self._upload_seg(q)
        if cs == 1:
            return self._download_init(q, idx, sub)
        if cs == 0:
            if self.ph != "dl":
                return self._abort(self.idx, self.sub, "cmd")
            return self._download_seg(q)
        if cs == 4:
            self.ph = "idle"
            return []
        if cs == 6 and q[0] & 1 == 0:
            return self._abort(idx, sub, "cmd")
        return self._abort(self.idx, self.sub, "cmd")

    def _upload_init(self, idx, sub):
        e = self._find(idx, sub)
        if isinstance(e, str):
            return self._abort(idx, sub, e)
        if not ("r" in e["acc"] or e["acc"] == "const"):
            return self._abort(idx, sub, "wo")
        v = self._cur(e)
        if v is None:
            return self._abort(idx, sub, "nodata")
        n = len(v)
        small = self.style["small"]
        if 1 <= n <= 4 and small == "exp":
            self.ph = "idle"
            return [struct.pack("<BHB", 0x43 | (4 - n) << 2, idx, sub) + v.ljust(4, b"\0")]
        if n == 4 and small == "exp_nosize":
            self.ph = "idle"
            return [struct.pack("<BHB", 0x42, idx, sub) + v]
        self.ph, self.idx, self.sub, self.buf, self.pos, self.tog = "ul", idx, sub, v, 0, 0
        if self.style["size_ind"]:
            return [struct.pack("<BHBL", 0x41, idx, sub, n)]
        return [struct.pack("<BHBL", 0x40, idx, sub, 0)]

    def _upload_seg(self, q):
        t = (q[0] >> 4) & 1
        if t != self.tog:
            return self._abort(self.idx, self.sub, "toggle")
        rem = len(self.buf) - self.pos
        k = min(7, rem)
        if self.style["chunk"] == "random" and rem > 0:
            k = self.rng.randint(1, k)
        d = self.buf[self.pos:self.pos + k]
        self.pos += k
        c = 1 if self.pos == len(self.buf) else 0
        r = bytes([self.tog << 4 | (7 - k) << 1 | c]) + d.ljust(7, b"\0")
        self.tog ^= 1
        if c:
            self.ph = "idle"
        return [r]

    def _commit(self, idx, sub, data, resp):
        ref = self._write_refusal(idx, sub, len(data))
        if ref:
            return self._abort(idx, sub, ref)
        self.store[(idx, sub)] = list(data)
        self.ph = "idle"
        return [resp]

    def _download_init(self, q, idx, sub):
        ok = struct.pack("<BHBL", 0x60, idx, sub, 0)
        if q[0] & 2:
            n = 4 - ((q[0] >> 2) & 3) if q[0] & 1 else 4
            return self._commit(idx, sub, q[4:4 + n], ok)
        if self.style["refuse"] == "init":
            ref = self._write_refusal(idx, sub, 0, static_only=True)
            if ref:
                return self._abort(idx, sub, ref)
        self.ph, self.idx, self.sub, self.buf, self.tog = "dl", idx, sub, b"", 0
        return [ok]

    def _download_seg(self, q):
        t = (q[0] >> 4) & 1
        if t != self.tog:
            return self._abort(self.idx, self.sub, "toggle")
        k = 7 - ((q[0] >> 1) & 7)
        self.buf += q[1:1 + k]
        resp = bytes([0x20 | self.tog << 4]) + bytes(7)
        if q[0] & 1:
            return self._commit(self.idx, self.sub, self.buf, resp)
        self.tog ^= 1
        return [resp]
