"""Drivers for C08 (import) and C14 (export / re-import)."""
from __future__ import annotations

import contextlib
import io
import os
import random
import sys
import tempfile

from harness import eds


def _import_text(txt, nodearg, suffix=".eds"):
    import canopen
    fd, path = tempfile.mkstemp(suffix=suffix)
    with os.fdopen(fd, "w") as fh:
        fh.write(txt)
    try:
        return canopen.import_od(path, None if nodearg is None or nodearg < 0 else nodearg)
    finally:
        os.unlink(path)


def import_case(case):
    """case: {seed, nobj, features}; returns rows for Table_Eds"""
    import logging
    logging.disable(logging.CRITICAL)
    rng = random.Random(case["seed"])
    doc = eds.gen_doc(rng, case.get("nobj", 10), case.get("features"))
    txt = eds.render(doc)
    try:
        if case.get("via") == "node" and txt.isascii():
            # the device serves its own EDS in object 0x1021 (import_from_node)
            import canopen
            from canopen.objectdictionary import ODVariable
            nid = doc["nodearg"] if 1 <= doc["nodearg"] <= 127 else 5
            doc["nodearg"] = nid
            dev_od = canopen.ObjectDictionary()
            v = ODVariable("Store EDS", 0x1021, 0)
            v.data_type = 0xF
            dev_od.add_object(v)
            net1, net2 = canopen.Network(), canopen.Network()

            class _Link:
                def __init__(self, peer):
                    self.peer = peer

                def send(self, msg, timeout=None):
                    self.peer.notify(msg.arbitration_id, bytearray(msg.data), 0.0)

                def shutdown(self):
                    pass
            net1.bus, net2.bus = _Link(net2), _Link(net1)
            dev = canopen.LocalNode(nid, dev_od)
            net2.add_node(dev)
            dev.sdo[0x1021].raw = txt.encode("ascii")
            # (Network.add_node(nid, upload_eds=True) = this call + RemoteNode(nid, od); a RemoteNode wants
            # every PDO communication record to come with its mapping record, which random documents lack)
            from canopen.objectdictionary.eds import import_from_node
            od = import_from_node(nid, net1)
            if od is None:
                raise RuntimeError("no object dictionary could be uploaded from the node")
        elif case.get("via") == "fileobj":
            import canopen
            fp = io.StringIO(txt)
            fp.name = "generated.dcf"
            od = canopen.import_od(fp, None if doc["nodearg"] < 0 else doc["nodearg"])
        else:
            od = _import_text(txt, doc["nodearg"], case.get("suffix", ".eds"))
    except Exception as exc:  # noqa
        return {"rows": [{"kind": "crash", "repr": f"{type(exc).__name__}: {exc}"[:200]}], "text": txt}
    return {"rows": eds.import_rows(doc, eds.proj_od(od)), "text": txt if case.get("keep_text") else ""}


def _blank_val(o):
    o = dict(o)
    o["members"] = [dict(m, val=eds.NONE) for m in o["members"]]
    o["dyn"] = []
    return o


def export_case(case):
    """case: {seed, nobj, source: code|text}"""
    import logging
    logging.disable(logging.CRITICAL)
    import canopen
    rng = random.Random(case["seed"])
    in_force = -1
    if case.get("source") == "text":
        doc = eds.gen_doc(rng, case.get("nobj", 8))
        doc["dummies"] = []
        txt0 = eds.render(doc)
        od0 = _import_text(txt0, doc["nodearg"])
        in_force = doc["nodearg"] if doc["nodearg"] >= 0 else doc["nodeid_file"]
    else:
        od0 = eds.build_code_od(rng, case.get("nobj", 8))
        in_force = -1 if od0.node_id is None else od0.node_id
    p0 = eds.proj_od(od0)
    rows = []
    for doc_type in ("eds", "dcf"):
        dcf = doc_type == "dcf"
        texts = {}
        try:
            fd, path = tempfile.mkstemp(suffix="." + doc_type)
            # the file exists already and holds an older, longer document
            os.write(fd, ("[FileInfo]\nFileName=old\n" + "".join(f"[{0x7000 + k:X}]\nParameterName=old {k}\nObjectType=0x7\n"
                                                                 f"DataType=0x0005\nAccessType=rw\n" for k in range(600))).encode())
            os.close(fd)
            canopen.export_od(od0, path)             # doc type from the suffix
            with open(path) as fh:
                texts["path"] = fh.read()
            os.unlink(path)
            buf = io.StringIO()
            canopen.export_od(od0, buf, doc_type)
            texts["stream"] = buf.getvalue()
            out = io.StringIO()
            with contextlib.redirect_stdout(out):
                canopen.export_od(od0, None, doc_type)
            texts["stdout"] = out.getvalue()
        except Exception as exc:  # noqa
            rows.append({"kind": "crash", "repr": f"export {doc_type}: {type(exc).__name__}: {exc}"[:200]})
            continue
        # the same text for every destination; a text the independent reader cannot even read is
        # judged by its raw lines (and the stream's text stands in for it further down)
        parsed = {}
        for k, t in texts.items():
            try:
                parsed[k] = eds.parse_export(t)
            except Exception as exc:  # noqa
                parsed[k] = None
                rows.append({"kind": "same", "a": [["unreadable " + k, [[type(exc).__name__, ""]]]], "b": [], "dest": k,
                             "doc_type": doc_type})
        if texts["path"] != texts["stream"] and parsed.get("path") is not None and parsed.get("stream") is not None \
                and parsed["path"]["file"] == parsed["stream"]["file"]:
            rows.append({"kind": "same", "a": [["text differs", [["len", str(len(texts["path"]))]]]], "b": [],
                         "dest": "stream", "doc_type": doc_type})
        ref = next((parsed[k] for k in ("stream", "stdout", "path") if parsed.get(k) is not None), None)
        if ref is None:
            continue
        for k in list(parsed):
            if parsed[k] is None:
                parsed[k] = ref
        # (i) the destination does not change the document
        for k in ("stream", "stdout"):
            a = sorted([s, [list(x) for x in kv]] for s, kv in parsed["path"]["file"].items())
            b = sorted([s, [list(x) for x in kv]] for s, kv in parsed[k]["file"].items())
            rows.append({"kind": "same", "a": a, "b": b, "dest": k, "doc_type": doc_type})
        # (ii) the exported text, read independently, means the original dictionary
        docobjs = {o["idx"]: o for o in parsed["path"]["objs"]}
        node = in_force
        for idx, o0 in p0["objs"].items():
            d = docobjs.get(idx)
            oo = dict(o0, dyn=[]) if dcf else _blank_val(o0)
            oo["members"] = [dict(m, relative=False) for m in oo["members"]]
            if d is None:
                rows.append({"kind": "rt", "a": oo, "b": eds.NONE, "dcf": dcf, "doc_type": doc_type, "sem": True})
            else:
                for mm in [d["var"]] + [m["var"] for m in d["members"]]:
                    if "name" in mm and mm["def"].get("k") == "rel":
                        mm["def"] = {"k": "num", "v": eds.limb(mm["def"]["x"] + max(node, 0))}
                rows.append({"kind": "obj", "d": eds._strip_f(d), "o": oo, "node": node, "doc_type": doc_type})
        # (iii) the real re-import equals the original
        try:
            # $NODEID-relative defaults are kept as text: the re-import needs the node id in force
            od1 = _import_text(texts["path"], in_force if in_force >= 0 else None, "." + doc_type)
        except Exception as exc:  # noqa
            rows.append({"kind": "crash", "repr": f"re-import {doc_type}: {type(exc).__name__}: {exc}"[:200]})
            continue
        p1 = eds.proj_od(od1)
        for idx, o0 in p0["objs"].items():
            rows.append({"kind": "rt", "a": dict(o0, dyn=[]), "b": dict(p1["objs"][idx], dyn=[]) if idx in p1["objs"] else eds.NONE,
                         "dcf": dcf, "doc_type": doc_type})
        rows.append({"kind": "rtdoc", "a": {k: p0[k] for k in ("indexes", "comments", "devinfo", "baudrates", "bitrate", "nodeid")},
                     "b": {k: p1[k] for k in ("indexes", "comments", "devinfo", "baudrates", "bitrate", "nodeid")},
                     "dcf": dcf, "doc_type": doc_type})
    return {"rows": rows}
