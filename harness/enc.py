"""Independent (standard-library only) CiA 301 encoder used by the harness to describe value
sources in trace headers.  Its agreement with the TLA+ Codec module is checked by the C04 check."""
import struct

INT = {0x2: (1, True), 0x3: (2, True), 0x4: (4, True), 0x10: (3, True), 0x12: (5, True),
       0x13: (6, True), 0x14: (7, True), 0x15: (8, True),
       0x5: (1, False), 0x6: (2, False), 0x7: (4, False), 0x16: (3, False), 0x18: (5, False),
       0x19: (6, False), 0x1A: (7, False), 0x1B: (8, False)}
BOOLEAN, REAL32, REAL64, VSTR, OSTR, USTR, DOMAIN = 0x1, 0x8, 0x11, 0x9, 0xA, 0xB, 0xF
NUM_SIZE = {**{k: v[0] for k, v in INT.items()}, BOOLEAN: 1, REAL32: 4, REAL64: 8}


def encode(dt, value) -> bytes:
    if isinstance(value, (bytes, bytearray)):
        return bytes(value)
    if dt in INT:
        size, signed = INT[dt]
        return int(value).to_bytes(size, "little", signed=signed)
    if dt == BOOLEAN:
        return b"\x01" if value else b"\x00"
    if dt == REAL32:
        return struct.pack("<f", value)
    if dt == REAL64:
        return struct.pack("<d", value)
    if dt == VSTR:
        return value.encode("ascii")
    if dt == USTR:
        return value.encode("utf_16_le")
    return bytes(value)


def int_range(dt):
    size, signed = INT[dt]
    if signed:
        return -(1 << (8 * size - 1)), (1 << (8 * size - 1)) - 1
    return 0, (1 << (8 * size)) - 1
