"""Projection of Python values to the typed-value records used in traces (see Codec.tla).
Integers become limb records (sign + little-endian magnitude bytes), floats are decomposed with
float.hex() -- no struct / no library code involved."""
import math
import re

_HEX = re.compile(r"^(-?)0x([01])\.([0-9a-f]+)p([+-]\d+)$")


def tv_int(v: int) -> dict:
    a = abs(v)
    return {"k": "int", "neg": v < 0, "mag": list(a.to_bytes((a.bit_length() + 7) // 8, "little"))}


def tv_real(f: float) -> dict:
    if math.isnan(f):
        return {"k": "real", "cls": "nan", "neg": False, "lead": 0, "exp": 0, "frac": [0] * 13}
    if math.isinf(f):
        return {"k": "real", "cls": "inf", "neg": f < 0, "lead": 0, "exp": 0, "frac": [0] * 13}
    m = _HEX.match(f.hex())
    sign, lead, frac, exp = m.groups()
    frac = (frac + "0" * 13)[:13]
    return {"k": "real", "cls": "fin", "neg": sign == "-", "lead": int(lead), "exp": int(exp),
            "frac": [int(c, 16) for c in frac]}


def tv(value) -> dict:
    if isinstance(value, bool):
        return {"k": "bool", "b": value}
    if isinstance(value, int):
        return tv_int(value)
    if isinstance(value, float):
        return tv_real(value)
    if isinstance(value, str):
        return {"k": "text", "cps": [ord(c) for c in value]}
    if isinstance(value, (bytes, bytearray, memoryview)):
        return {"k": "bytes", "b": list(bytes(value))}
    return {"k": "other", "repr": repr(value)[:80]}
