"""EDS / DCF support for C08 and C14: an independent writer (abstract document -> INI text), the
projection of an imported ObjectDictionary, an independent reader of exported text (standard
library configparser only) and a generator of dictionaries built in code."""
from __future__ import annotations

import configparser
import io
import random
from fractions import Fraction

from harness import enc
from harness.tv import tv, tv_int, tv_real

NONE = {"k": "none"}
INT_TYPES = sorted(enc.INT)
ALL_TYPES = INT_TYPES + [enc.BOOLEAN, enc.REAL32, enc.REAL64, enc.VSTR, enc.OSTR, enc.USTR, enc.DOMAIN]
ACCS = ["rw", "ro", "wo", "const", "RW", "RO", "WO", "CONST", "Const", "rwr", "rww"]
DEVINFO = [("VendorName", "s"), ("VendorNumber", "i"), ("ProductName", "s"), ("ProductNumber", "i"),
           ("RevisionNumber", "i"), ("OrderCode", "s"), ("SimpleBootUpMaster", "b"), ("SimpleBootUpSlave", "b"),
           ("Granularity", "g"), ("DynamicChannelsSupported", "b"), ("GroupMessaging", "b"), ("NrOfRXPDO", "i"),
           ("NrOfTXPDO", "i"), ("LSS_Supported", "b")]
DEVATTR = {"VendorName": "vendor_name", "VendorNumber": "vendor_number", "ProductName": "product_name",
           "ProductNumber": "product_number", "RevisionNumber": "revision_number", "OrderCode": "order_code",
           "SimpleBootUpMaster": "simple_boot_up_master", "SimpleBootUpSlave": "simple_boot_up_slave",
           "Granularity": "granularity", "DynamicChannelsSupported": "dynamic_channels_supported",
           "GroupMessaging": "group_messaging", "NrOfRXPDO": "nr_of_RXPDO", "NrOfTXPDO": "nr_of_TXPDO",
           "LSS_Supported": "LSS_supported"}
RATES = [10, 20, 50, 125, 250, 500, 800, 1000]


def limb(v):
    d = tv_int(int(v))
    return {"neg": d["neg"], "mag": d["mag"]}


def word(rng, extra=""):
    alphabet = "abcdefghijklmnopqrstuvwxyzABCDEFGHIJKLMNOPQRSTUVWXYZ0123456789_-" + extra
    return "".join(rng.choice(alphabet) for _ in range(rng.randrange(1, 9)))


def text(rng, uniq, special=True, dots=False):
    parts = [word(rng, (" %=#" if special else "") + ("." if dots else "")).strip() or "x" for _ in range(rng.randrange(1, 4))]
    t = " ".join(parts)
    t = " ".join(t.split())          # no leading / trailing / double blanks (INI trimming is lexical)
    t = t.replace(" ;", ";").replace("= ", "=")
    return f"{t} {uniq}"


# ---------------------------------------------------------------------------------------------
# abstract documents
# ---------------------------------------------------------------------------------------------
def num_tok(rng, v):
    return {"k": "num", "v": limb(v), "spell": rng.choice(["dec", "hexl", "hexu"]) if v >= 0 else "dec"}


def gen_var(rng, name, dt, node_in_force, feat=None):
    feat = feat or {}
    v = {"name": name, "dt": dt, "acc": feat.get("acc", rng.choice(ACCS)), "pdo": feat.get("pdo", rng.choice([0, 1, -1])),
         "def": NONE, "val": NONE, "low": NONE, "high": NONE,
         "storage": rng.choice(["", "", "RAM", "PERSIST_COMM"]), "factor": [1, 1], "unit": "", "desc": ""}

    def value_tok(kind):
        if dt in enc.INT:
            lo, hi = enc.int_range(dt)
            if kind in ("rel0", "rel1") and node_in_force >= 0:
                # offsets whose hex spelling ends in / consists of letters that also occur in "$NODEID"
                x = rng.choice([0x180, 0x200, 0x600, 0, 5, 0x21D, 0x4E, 0xDE, 0xED, 0xD, 0xE, 0x1DE, 0xDD, 0x10D,
                                rng.randrange(0, 0x800), rng.randrange(0, 0x800)])
                if x + node_in_force <= hi:
                    return {"k": "rel", "x": x, "form": 0 if kind == "rel0" else 1, "numsp": rng.choice([0, 0, 1, 2])}
            val = rng.choice([lo, hi, 0, 1, rng.randint(lo, hi)])
            if kind == "hex" and val < 0:
                val = -val - 1 if -val - 1 <= hi else 0
            t = num_tok(rng, val)
            if kind == "hex" and val >= 0:
                t["spell"] = rng.choice(["hexl", "hexu"])
            if kind == "dec":
                t["spell"] = "dec"
            return t
        if dt == enc.BOOLEAN:
            return {"k": "num", "v": limb(rng.choice([0, 1])), "spell": "dec"}
        if dt in (enc.REAL32, enc.REAL64):
            f = rng.choice([0.0, 1.5, -2.25, 5.2, 1e10, 0.001, float(rng.randint(-10000, 10000)) / 16])
            return {**tv_real(f), "f": f}
        if dt in (enc.VSTR, enc.USTR):
            s = text(rng, rng.randrange(1000))
            return {"k": "text", "cps": [ord(c) for c in s]}
        return {"k": "hex", "b": [rng.randrange(256) for _ in range(rng.randrange(1, 12))]}
    dk = feat.get("def", rng.choice(["none", "dec", "hex", "rel0", "rel1", "dec", "hex"]))
    if dk != "none":
        v["def"] = value_tok(dk)
    if "def" not in feat and (dt in enc.INT or dt in (enc.VSTR, enc.USTR, enc.OSTR, enc.DOMAIN)) and rng.random() < 0.08:
        v["def"] = {"k": "empty"}      # "DefaultValue=" with nothing behind it, as many real files have
    vk = feat.get("val", rng.choice(["none", "none", "dec", "hex"]))
    if vk != "none":
        v["val"] = value_tok(vk)
    if dt in enc.INT:
        lo, hi = enc.int_range(dt)
        signed = enc.INT[dt][1]
        lim = feat.get("lim", rng.choice(["none", "none", "low", "high", "both"]))

        def lim_tok(val):
            if signed and rng.random() < 0.6:
                # CiA 306: limits of signed types as two's complement hex of the type's width
                size = enc.INT[dt][0]
                return {"k": "num2c", "v": {"neg": False, "mag": list((val % (1 << (8 * size))).to_bytes(size, "little"))}}
            return num_tok(rng, val)
        if lim in ("low", "both"):
            v["low"] = lim_tok(rng.choice([lo, lo + 1, -1 if signed else 0, 0, rng.randint(lo, hi)]))
        if lim in ("high", "both"):
            v["high"] = lim_tok(rng.choice([hi, hi - 1, -2 if signed else 1, rng.randint(lo, hi)]))
    if rng.random() < 0.25:
        n, d = rng.choice([(1, 10), (1, 4), (5, 2), (-3, 8), (25, 1), (1, 1000), (1, 1024), (1, 65536), (45, 512),
                           (1234567, 1), (1, 3)])
        v["factor"] = [n, d]
        v["unit"] = rng.choice(["mm", "rpm", "deg C", "%"])
        v["desc"] = text(rng, rng.randrange(100), special=False)
    elif rng.random() < 0.15:
        v["unit"] = rng.choice(["%", "deg C", "V"])
        if rng.random() < 0.5:
            v["desc"] = text(rng, rng.randrange(100), special=False)
    return v


def gen_doc(rng, nobj=12, features=None):
    """features: optional list of per-variable feature dicts (dt, acc, def, lim, pdo) to be placed."""
    has_dc = rng.random() < 0.7
    nodeid_file = rng.choice([1, 5, 100, 127]) if has_dc and rng.random() < 0.8 else -1
    nodearg = rng.choice([-1, -1, 2, 64])
    in_force = nodearg if nodearg >= 0 else (nodeid_file if has_dc else -1)
    doc = {"has_dc": has_dc, "nodeid_file": nodeid_file if has_dc else -1,
           "baud_file": rng.choice([-1, 125, 500, 1000]) if has_dc else -1,
           "comments": "\n".join(text(rng, i, special=False) for i in range(rng.choice([0, 1, 2, 3, 3, 10, 12, 23]))),
           "has_comments": True, "devinfo": [], "baudrates": sorted(rng.sample(RATES, rng.randrange(0, 5))),
           "dummies": sorted(rng.sample(range(1, 8), rng.randrange(0, 3))), "objs": [], "nodearg": nodearg}
    for key, kind in DEVINFO:
        if rng.random() < 0.7:
            if kind == "s":
                val = {"k": "text", "cps": [ord(c) for c in text(rng, 0, special=False)]}
            elif kind == "b":
                val = tv_int(rng.choice([0, 1]))
            elif kind == "g":
                val = tv_int(rng.choice([0, 1, 8, 64]))
            else:
                val = tv_int(rng.choice([0, 1, 4, 0x12345678, rng.randrange(1 << 31)]))
            doc["devinfo"].append([key, val])
    used = set(doc["dummies"])
    feats = list(features or [])
    uniq = 0
    while len(doc["objs"]) < nobj or feats:
        idx = rng.choice([rng.randrange(0x1000, 0x1C00), rng.randrange(0x2000, 0x6000), rng.randrange(0x6000, 0xA000),
                          rng.choice([0x1FFF, 0x2000, 0x5FFE, 0x5FFF, 0x6000, 0x9FFF, 0xA000, 0xFFFF])])
        if idx in used or idx == 0x1017:
            continue
        used.add(idx)
        uniq += 1
        kind = rng.choice(["var", "var", "var", "var7", "dom", "arr", "rec", "compact", "compactnamed"])
        if feats:
            f = feats.pop()
        else:
            f = {}
        dt = f.get("dt", rng.choice(ALL_TYPES))
        name = text(rng, f"o{uniq}", dots=kind in ("var", "var7", "dom") and rng.random() < 0.3)
        obj = {"idx": idx, "name": name, "storage": "", "compact": -1, "namelist": [], "members": [], "var": NONE,
               "idxcase": rng.choice(["u", "l"])}
        if kind in ("var", "var7", "dom"):
            if kind == "dom":
                dt = enc.DOMAIN
            obj["otype"] = {"var": -1, "var7": 7, "dom": 2}[kind]
            obj["var"] = gen_var(rng, name, dt, in_force, f)
            obj["storage"] = obj["var"]["storage"]
        elif kind in ("arr", "rec"):
            obj["otype"] = 8 if kind == "arr" else 9
            obj["storage"] = rng.choice(["", "ROM"])
            n = rng.randrange(1, 5)
            subs = list(range(1, n + 1)) if kind == "arr" else sorted(rng.sample(range(1, 0x20), n))
            m0 = gen_var(rng, "Highest sub-index supported", 0x5, in_force, {"acc": "ro", "def": "dec", "val": "none", "lim": "none"})
            m0["def"] = {"k": "num", "v": limb(max(subs)), "spell": "dec"}
            obj["members"].append({"sub": 0, "spell": rng.choice(["sub", "Sub"]), "var": m0})
            for s in subs:
                mdt = dt if kind == "arr" else rng.choice(ALL_TYPES)
                obj["members"].append({"sub": s, "spell": rng.choice(["sub", "Sub"]),
                                       "var": gen_var(rng, text(rng, f"m{uniq}_{s}", dots=rng.random() < 0.3), mdt, in_force,
                                                      f if s == subs[0] else None)})
        else:
            obj["otype"] = 8
            obj["compact"] = rng.choice([1, 2, 3, 4, 5, 5, 10, 12, 17, 20])     # name-list keys are decimal numbers
            obj["var"] = gen_var(rng, name, dt, in_force, f)
            obj["var"]["storage"] = ""
            obj["var"]["factor"], obj["var"]["unit"], obj["var"]["desc"] = [1, 1], "", ""
            if kind == "compactnamed":
                obj["namelist"] = [text(rng, f"n{uniq}_{k}") for k in range(1, obj["compact"] + 1)]
                if "." not in name and uniq % 3 == 0:
                    # the first entry spelled like the array itself (array "Temperature": 1=Temperature, ...)
                    obj["namelist"][0] = name
        doc["objs"].append(obj)
    doc["objs"].sort(key=lambda o: o["idx"])
    doc["indexes"] = sorted([o["idx"] for o in doc["objs"]] + list(doc["dummies"]))
    return doc


def render_tok(tok, dt):
    k = tok["k"]
    if k == "num":
        v = int.from_bytes(bytes(tok["v"]["mag"]), "little") * (-1 if tok["v"]["neg"] else 1)
        sp = tok.get("spell", "dec")
        return str(v) if sp == "dec" or v < 0 else (f"0x{v:x}" if sp == "hexl" else f"0x{v:X}")
    if k == "num2c":
        return f"0x{int.from_bytes(bytes(tok['v']['mag']), 'little'):X}"
    if k == "rel":
        x = tok["x"]
        num = {0: f"0x{x:X}", 1: f"0x{x:x}", 2: str(x)}[tok.get("numsp", 0)]
        return f"$NODEID+{num}" if tok["form"] == 0 else f"{num}+$NODEID"
    if k == "empty":
        return ""
    if k == "text":
        return "".join(chr(c) for c in tok["cps"])
    if k == "hex":
        return bytes(tok["b"]).hex().upper()
    if k == "real":
        return repr(tok["f"])
    raise ValueError(k)


def render_var(lines, section, v, otype=None, extra=None):
    lines.append(f"[{section}]")
    lines.append(f"ParameterName={v['name']}")
    if otype is not None and otype >= 0:
        lines.append(f"ObjectType=0x{otype:X}")
    if v["storage"]:
        lines.append(f"StorageLocation={v['storage']}")
    lines.append(f"DataType=0x{v['dt']:04X}")
    lines.append(f"AccessType={v['acc']}")
    for key, fld in (("DefaultValue", "def"), ("ParameterValue", "val"), ("LowLimit", "low"), ("HighLimit", "high")):
        if v[fld]["k"] != "none":
            lines.append(f"{key}={render_tok(v[fld], v['dt'])}")
    if v["pdo"] >= 0:
        # (decimal and hex spellings of the flag; the library's own writer spells it 0x0 / 0x1)
        lines.append(f"PDOMapping={v['pdo']}" if len(lines) % 2 else f"PDOMapping=0x{v['pdo']:X}")
    if v["factor"] != [1, 1]:
        lines.append(f"Factor={v['factor'][0] / v['factor'][1]!r}")
    if v["factor"] != [1, 1] or v["unit"]:
        lines.append(f"Unit={v['unit']}")
    if v["factor"] != [1, 1] or v["desc"]:
        lines.append(f"Description={v['desc']}")
    for k2, x in (extra or {}).items():
        lines.append(f"{k2}={x}")
    lines.append("")


def render(doc) -> str:
    L = ["[FileInfo]", "FileName=generated.eds", "FileVersion=1", "EDSVersion=4.0", ""]
    L.append("[DeviceInfo]")
    for key, val in doc["devinfo"]:
        if val["k"] == "text":
            L.append(f"{key}={''.join(chr(c) for c in val['cps'])}")
        else:
            L.append(f"{key}={int.from_bytes(bytes(val['mag']), 'little')}")
    for r in RATES:
        L.append(f"BaudRate_{r}={1 if r in doc['baudrates'] else 0}")
    L.append("")
    if doc["has_dc"]:
        L.append("[DeviceComissioning]")
        if doc["nodeid_file"] >= 0:
            L.append(f"NodeID={doc['nodeid_file']}")
        if doc["baud_file"] >= 0:
            L.append(f"Baudrate={doc['baud_file']}")
        L.append("")
    lines = doc["comments"].split("\n") if doc["comments"] else []
    L.append("[Comments]")
    L.append(f"Lines={len(lines)}")
    for i, ln in enumerate(lines, 1):
        L.append(f"Line{i}={ln}")
    L.append("")
    L.append("[DummyUsage]")
    for i in range(1, 8):
        L.append(f"Dummy{i:04d}={1 if i in doc['dummies'] else 0}")
    L.append("")
    L += ["[MandatoryObjects]", "SupportedObjects=0", ""]
    L.append("[OptionalObjects]")
    L.append(f"SupportedObjects={len(doc['objs'])}")
    for i, o in enumerate(doc["objs"], 1):
        L.append(f"{i}=0x{o['idx']:04X}")
    L.append("")
    for o in doc["objs"]:
        sec = f"{o['idx']:04X}" if o["idxcase"] == "u" else f"{o['idx']:04x}"
        if o["compact"] < 0 and "name" in o["var"]:
            render_var(L, sec, o["var"], o["otype"])
        elif o["compact"] >= 0:
            render_var(L, sec, o["var"], 8, {"CompactSubObj": o["compact"]})
            if o["namelist"]:
                L.append(f"[{sec}Name]")
                L.append(f"NrOfEntries={len(o['namelist'])}")
                for k, nm in enumerate(o["namelist"], 1):
                    L.append(f"{k}={nm}")
                L.append("")
        else:
            L.append(f"[{sec}]")
            L.append(f"ParameterName={o['name']}")
            L.append(f"ObjectType=0x{o['otype']:X}")
            if o["storage"]:
                L.append(f"StorageLocation={o['storage']}")
            L.append(f"SubNumber={len(o['members'])}")
            L.append("")
            for m in o["members"]:
                render_var(L, f"{sec}{m['spell']}{m['sub']:X}", m["var"])
    return "\n".join(L) + "\n"


# ---------------------------------------------------------------------------------------------
# projection of an imported / built ObjectDictionary
# ---------------------------------------------------------------------------------------------
def _pv(x):
    if x is None:
        return NONE
    if isinstance(x, bool):
        return tv_int(int(x))
    if isinstance(x, float) and x == int(x) and False:
        return tv_int(int(x))
    return tv(x)


def proj_var(od, parent, var):
    from canopen.objectdictionary import ODVariable
    fac = Fraction(var.factor).limit_denominator(100000) if var.factor is not None else Fraction(1)
    if var.factor is not None and fac.numerator / fac.denominator != var.factor:
        fac = Fraction(-999999, 1)      # not (the double nearest to) a small fraction: never what was written
    dotted = True
    if parent is not None:
        try:
            dotted = od[f"{parent.name}.{var.name}"] is parent.subindices.get(var.subindex)
        except Exception:  # noqa
            dotted = False
    return {"sub": var.subindex, "name": var.name, "dt": var.data_type if var.data_type is not None else -1,
            "acc": var.access_type, "pdo": bool(var.pdo_mappable), "def": _pv(var.default), "val": _pv(var.value),
            "min": _pv(var.min), "max": _pv(var.max), "relative": bool(var.relative),
            "storage": var.storage_location or "", "factor": [fac.numerator, fac.denominator],
            "unit": var.unit or "", "desc": var.description or "", "dotted": bool(dotted)}


def proj_od(od):
    from canopen.objectdictionary import ODArray, ODRecord, ODVariable
    objs = {}
    for idx in od:
        o = od[idx]
        rec = {"k": "obj", "idx": idx, "name": o.name, "byidx": od[idx] is o, "byname": False}
        try:
            rec["byname"] = od[o.name] is o
        except Exception:  # noqa
            pass
        if isinstance(o, ODVariable):
            rec["kind"], rec["storage"] = "var", o.storage_location or ""
            rec["members"] = [proj_var(od, None, o)]
            rec["dyn"] = []
        else:
            rec["kind"] = "arr" if isinstance(o, ODArray) else "rec"
            rec["storage"] = o.storage_location or ""
            rec["members"] = [proj_var(od, o, o.subindices[s]) for s in sorted(o.subindices)]
            rec["dyn"] = []
            if isinstance(o, ODArray) and 1 in o.subindices:
                # members an array serves on demand (CompactSubObj expansion)
                for s in range(1, 25):
                    try:
                        rec["dyn"].append(proj_var(od, o if s in o.subindices else None, o[s]))
                    except Exception:  # noqa
                        break
        objs[idx] = rec
    di = od.device_information
    devinfo = []
    for key, attr in DEVATTR.items():
        val = getattr(di, attr, None)
        if val is not None:
            devinfo.append([key, _pv(val)])
    return {"objs": objs, "nodeid": -1 if od.node_id is None else od.node_id,
            "bitrate": -1 if od.bitrate is None else od.bitrate, "comments": od.comments or "",
            "devinfo": devinfo, "baudrates": sorted(int(r) // 1000 for r in di.allowed_baudrates),
            "indexes": sorted(objs)}


def import_rows(doc, proj):
    in_force = doc["nodearg"] if doc["nodearg"] >= 0 else doc["nodeid_file"]
    rows = [{"kind": "doc", "d": {k: doc[k] for k in ("has_dc", "nodeid_file", "baud_file", "comments", "devinfo",
                                                     "baudrates", "indexes")},
             "o": {k: proj[k] for k in ("nodeid", "bitrate", "comments", "devinfo", "baudrates", "indexes")},
             "nodearg": doc["nodearg"]}]
    for o in doc["objs"]:
        d = {k: o[k] for k in ("idx", "otype", "name", "storage", "compact", "namelist", "members")}
        d["var"] = {k: v for k, v in o["var"].items() if k != "f"} if "name" in o["var"] else o["var"]
        for m in d["members"]:
            m["var"] = {k: v for k, v in m["var"].items()}
        rows.append({"kind": "obj", "d": _strip_f(d), "o": proj["objs"].get(o["idx"], NONE), "node": in_force})
    return rows


def _strip_f(x):
    if isinstance(x, dict):
        return {k: _strip_f(v) for k, v in x.items() if k not in ("f", "spell", "idxcase", "numsp")}
    if isinstance(x, list):
        return [_strip_f(v) for v in x]
    return x


# ---------------------------------------------------------------------------------------------
# independent reader of exported text (configparser from the standard library)
# ---------------------------------------------------------------------------------------------
def _parse_int_tok(s, dt):
    try:
        v = int(s.replace(" ", ""), 0)
        return {"k": "num", "v": limb(v)}
    except ValueError:
        return {"k": "bad", "text": s[:40]}


def _parse_val(s, dt):
    if dt in (enc.OSTR, enc.DOMAIN):
        try:
            return {"k": "hex", "b": list(bytes.fromhex(s))}
        except ValueError:
            return {"k": "bad", "text": s[:40]}
    if dt in (enc.VSTR, enc.USTR):
        return {"k": "text", "cps": [ord(c) for c in s]}
    if dt in (enc.REAL32, enc.REAL64):
        try:
            return tv_real(float(s))
        except ValueError:
            return {"k": "bad", "text": s[:40]}
    if "$NODEID" in s:
        rest = s.replace(" ", "").upper().replace("$NODEID", "").strip("+")
        try:
            return {"k": "rel", "x": int(rest, 0), "form": 0}
        except ValueError:
            return {"k": "bad", "text": s[:40]}
    return _parse_int_tok(s, dt)


def parse_export(txt):
    """exported EDS/DCF text -> abstract document (same shape as gen_doc), standard library only"""
    cp = configparser.RawConfigParser()
    cp.optionxform = str
    cp.read_string(txt)

    def var_of(sec):
        g = lambda k, d=None: cp.get(sec, k) if cp.has_option(sec, k) else d  # noqa
        dt = int(g("DataType", "0"), 0)
        fac = Fraction(float(g("Factor", "1"))).limit_denominator(100000)
        v = {"name": g("ParameterName", ""), "dt": dt, "acc": g("AccessType", ""),
             "pdo": int(g("PDOMapping", "-1"), 0), "def": NONE, "val": NONE, "low": NONE, "high": NONE,
             "storage": g("StorageLocation", ""), "factor": [fac.numerator, fac.denominator],
             "unit": g("Unit", ""), "desc": g("Description", "")}
        if g("DefaultValue") is not None:
            v["def"] = _parse_val(g("DefaultValue"), dt)
        if g("ParameterValue") is not None:
            v["val"] = _parse_val(g("ParameterValue"), dt)
        if g("LowLimit") is not None:
            v["low"] = _parse_int_tok(g("LowLimit"), dt)
        if g("HighLimit") is not None:
            v["high"] = _parse_int_tok(g("HighLimit"), dt)
        return v
    objs = {}
    import re
    for sec in cp.sections():
        if re.fullmatch(r"[0-9A-Fa-f]{4}", sec):
            idx = int(sec, 16)
            ot = int(cp.get(sec, "ObjectType"), 0) if cp.has_option(sec, "ObjectType") else -1
            o = {"idx": idx, "otype": ot, "name": cp.get(sec, "ParameterName"),
                 "storage": cp.get(sec, "StorageLocation") if cp.has_option(sec, "StorageLocation") else "",
                 "compact": -1, "namelist": [], "members": [], "var": NONE}
            if ot in (7, 2, -1):
                o["var"] = var_of(sec)
            objs[idx] = o
    for sec in cp.sections():
        m = re.fullmatch(r"([0-9A-Fa-f]{4})[Ss]ub([0-9A-Fa-f]+)", sec)
        if m and int(m.group(1), 16) in objs:
            objs[int(m.group(1), 16)]["members"].append({"sub": int(m.group(2), 16), "var": var_of(sec)})
    doc = {"objs": [objs[k] for k in sorted(objs)], "sections": sorted(cp.sections())}
    doc["file"] = {s: sorted((k, v) for k, v in cp.items(s) if not k.startswith("Modification"))
                   for s in cp.sections()}
    return doc


# ---------------------------------------------------------------------------------------------
# dictionaries built in code (C14)
# ---------------------------------------------------------------------------------------------
def typed_value(rng, dt, negative_ok=True):
    if dt in enc.INT:
        lo, hi = enc.int_range(dt)
        return rng.choice([lo, hi, 0, 1, -1 if lo < 0 else 2, rng.randint(lo, hi)])
    if dt == enc.BOOLEAN:
        return rng.choice([0, 1])
    if dt in (enc.REAL32, enc.REAL64):
        return rng.choice([0.0, 1.5, -2.25, 5.2, 1e10, 0.001])
    if dt in (enc.VSTR, enc.USTR):
        return text(rng, rng.randrange(1000))
    return bytes(rng.randrange(256) for _ in range(rng.randrange(1, 12)))


def build_code_od(rng, nobj=10):
    import canopen
    from canopen.objectdictionary import ODArray, ODRecord, ODVariable
    od = canopen.ObjectDictionary()
    used, uniq = set(), 0

    def mkvar(name, idx, sub, dt):
        v = ODVariable(name, idx, sub)
        v.data_type = dt
        v.access_type = rng.choice(["rw", "ro", "wo", "const", "rwr", "rww"])
        v.pdo_mappable = rng.random() < 0.5
        if rng.random() < 0.8:
            v.default = typed_value(rng, dt)
        if rng.random() < 0.5:
            v.value = typed_value(rng, dt)
        if dt in enc.INT:
            lo, hi = enc.int_range(dt)
            if rng.random() < 0.5:
                v.min = rng.choice([lo, lo + 1, 0, -1 if lo < 0 else 0])
            if rng.random() < 0.5:
                v.max = rng.choice([hi, hi - 1, 1, -2 if lo < 0 else 3])
        if rng.random() < 0.3:
            v.storage_location = rng.choice(["RAM", "PERSIST_COMM", "ROM"])
        if rng.random() < 0.25:
            n, d = rng.choice([(1, 10), (1, 4), (5, 2), (-3, 8), (25, 1), (1, 1024), (1, 65536), (45, 512), (1234567, 1),
                               (1, 3)])
            v.factor = n / d
            v.unit = rng.choice(["mm", "rpm", "deg C", "%"])
            v.description = text(rng, rng.randrange(100), special=False)
        elif rng.random() < 0.15:
            # a unit / a description without a scaling factor
            v.unit = rng.choice(["%", "deg C", "V"])
            if rng.random() < 0.5:
                v.description = text(rng, rng.randrange(100), special=False)
        if v.description and len(v.description) % 3 == 0:
            # a description of several lines
            v.description += "\nsecond line " + v.description[:5].strip() + "\nthird"
        return v
    while len(used) < nobj:
        idx = rng.choice([rng.randrange(0x1002, 0x2000), rng.randrange(0x2000, 0x6000), rng.randrange(0x6000, 0xA000),
                          0x1000, 0x1001, 0x1018, rng.choice([0x1FFF, 0x2000, 0x5FFE, 0x5FFF, 0x6000, 0x9FFF, 0xA000, 0xFFFF])])
        if idx in used:
            continue
        used.add(idx)
        uniq += 1
        kind = rng.choice(["var", "var", "var", "arr", "rec"])
        name = text(rng, f"o{uniq}")
        if kind == "var":
            od.add_object(mkvar(name, idx, 0, rng.choice(ALL_TYPES)))
        else:
            obj = (ODArray if kind == "arr" else ODRecord)(name, idx)
            if rng.random() < 0.3:
                obj.storage_location = "ROM"
            n = rng.randrange(1, 21 if rng.random() < 0.2 else 6)
            m0 = ODVariable("Highest sub-index supported", idx, 0)
            m0.data_type, m0.access_type, m0.default = 0x5, "ro", n
            obj.add_member(m0)
            dt = rng.choice(ALL_TYPES)
            for s in range(1, n + 1):
                obj.add_member(mkvar(text(rng, f"m{uniq}_{s}"), idx, s, dt if kind == "arr" else rng.choice(ALL_TYPES)))
            od.add_object(obj)
    # (every fourth line is empty: paragraphs)
    od.comments = "\n".join("" if i % 4 == 2 and i + 1 < n_c else text(rng, i, special=False)
                            for n_c in [rng.choice([0, 1, 2, 3, 10, 11, 25])] for i in range(n_c))
    di = od.device_information
    for key, kind in DEVINFO:
        if rng.random() < 0.7:
            val = text(rng, 0, special=False) if kind == "s" else rng.choice([0, 1]) if kind == "b" else \
                rng.choice([0, 1, 8, 64]) if kind == "g" else rng.choice([0, 1, 4, 0x12345678])
            setattr(di, DEVATTR[key], bool(val) if kind == "b" else val)
    di.allowed_baudrates = set(r * 1000 for r in rng.sample(RATES, rng.randrange(0, 5)))
    if rng.random() < 0.7:
        od.bitrate = rng.choice([125000, 500000, 1000000])
    if rng.random() < 0.7:
        od.node_id = rng.choice([1, 5, 127])
    return od
