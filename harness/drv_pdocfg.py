"""Driver for C09: PdoMap.save() of a real RemoteNode against a strict PDO device (SDO accessors of
the node are redirected to the device model), then a second, fresh RemoteNode reads the device."""
from __future__ import annotations

import struct

from harness.bus import FakeBus
from harness.common import B

OBJ = {8: 0x5, 16: 0x6, 32: 0x7, 64: 0x1B, 1: 0x1, 24: 0x16, 4: 0x5, 7: 0x2}


def obj_type(idx, n):
    """data type of a mappable object that is mapped with n bits: every fifth wider object is an
    OCTET_STRING / TIME_OF_DAY / DOMAIN (no fixed width of its own; the mapping entry alone says how many bits)"""
    if n >= 16 and idx % 5 == 3:
        return (0xA, 0xC, 0xF)[idx % 3]
    return OBJ.get(n, 0x7)


class StrictDevice:
    def __init__(self, com_idx, map_idx, dev0, log):
        self.com_idx, self.map_idx, self.log = com_idx, map_idx, log
        self.valid, self.rtr, self.cob, self.tt = dev0["valid"], dev0["rtr"], dev0["cob"], dev0["tt"]
        self.inhibit = self.evt = self.sync = 0
        self.count = dev0["count"]
        self.ent = {k: (0, 0, 0) for k in range(1, 9)}
        for k, e in enumerate(dev0["ents"], 1):
            self.ent[k] = tuple(e)
        self.subs = set()

    def _w(self, kind, sub, v):
        if kind == "com":
            if sub == 1:
                if len(v) != 4:
                    return False
                raw = struct.unpack("<L", v)[0]
                valid, rtr, cob = not raw & 0x80000000, not raw & 0x40000000, raw & 0x1FFFFFFF
                if self.valid and valid and (cob != self.cob or rtr != self.rtr):
                    return False
                self.valid, self.rtr, self.cob = valid, rtr, cob
                return True
            if sub == 2 and len(v) == 1:
                self.tt = v[0]
                return True
            if sub == 3 and len(v) == 2 and not self.valid:
                self.inhibit = struct.unpack("<H", v)[0]
                return True
            if sub == 5 and len(v) == 2:
                self.evt = struct.unpack("<H", v)[0]
                return True
            if sub == 6 and len(v) == 1 and not self.valid:
                self.sync = v[0]
                return True
            return False
        if sub == 0:
            if len(v) == 1 and not self.valid and v[0] <= 8 and all(self.ent[k] != (0, 0, 0) for k in range(1, v[0] + 1)):
                self.count = v[0]
                return True
            return False
        if len(v) == 4 and 1 <= sub <= 8 and not self.valid and self.count == 0:
            raw = struct.unpack("<L", v)[0]
            self.ent[sub] = (raw >> 16, (raw >> 8) & 0xFF, raw & 0xFF)
            return True
        return False

    def download(self, index, subindex, data, force_segment=False):
        import canopen
        kind = "com" if index == self.com_idx else "map" if index == self.map_idx else "other"
        ok = kind != "other" and self._w(kind, subindex, bytes(data))
        self.log.append({"e": "w", "k": kind, "sub": subindex, "val": B(data), "ok": bool(ok)})
        if not ok:
            raise canopen.SdoAbortedError(0x08000022)

    def upload(self, index, subindex):
        import canopen
        kind = "com" if index == self.com_idx else "map" if index == self.map_idx else "other"
        val = None
        if kind == "com":
            val = {0: bytes([6]), 1: struct.pack("<L", self.cob | (0 if self.rtr else 1 << 30) | (0 if self.valid else 1 << 31)),
                   2: bytes([self.tt]), 3: struct.pack("<H", self.inhibit), 5: struct.pack("<H", self.evt),
                   6: bytes([self.sync])}.get(subindex)
            if subindex in (3, 5, 6) and subindex not in self.present:
                val = None
        elif kind == "map":
            if subindex == 0:
                val = bytes([self.count])
            elif 1 <= subindex <= 8:
                i, s, n = self.ent[subindex]
                val = struct.pack("<L", i << 16 | s << 8 | n)
        self.log.append({"e": "r", "k": kind, "sub": subindex, "val": B(val) if val is not None else [], "ok": val is not None})
        if val is None:
            raise canopen.SdoAbortedError(0x06090011)
        return val


def build_od(com_idx, map_idx, present, objs):
    import canopen
    from canopen.objectdictionary import ODArray, ODRecord, ODVariable
    od = canopen.ObjectDictionary()
    com = ODRecord("com", com_idx)
    od.add_object(com)
    for sub, dt in ((0, 0x5), (1, 0x7), (2, 0x5), (3, 0x6), (5, 0x6), (6, 0x5)):
        if sub in (3, 5, 6) and sub not in present:
            continue
        v = ODVariable(f"c{sub}", com_idx, sub)
        v.data_type = dt
        com.add_member(v)
    mp = ODArray("map", map_idx)
    od.add_object(mp)
    for sub in range(0, 9):
        v = ODVariable(f"m{sub}", map_idx, sub)
        v.data_type = 0x5 if sub == 0 else 0x7
        mp.add_member(v)
    for idx, subs in objs.items():
        if list(subs) == [0]:
            v = ODVariable(f"Obj{idx:04X}", idx, 0)
            v.data_type = obj_type(idx, subs[0])
            od.add_object(v)
        else:
            rec = ODRecord(f"Rec{idx:04X}", idx)
            od.add_object(rec)
            for s, n in subs.items():
                v = ODVariable(f"Rec{idx:04X}m{s}", idx, s)
                v.data_type = obj_type(idx, n)
                rec.add_member(v)
    return od


def run_case(case: dict) -> dict:
    import logging
    logging.disable(logging.CRITICAL)
    import canopen
    kind, num = case["kind"], case["num"]
    com_idx = (0x1400 if kind == "rpdo" else 0x1800) + num - 1
    map_idx = (0x1600 if kind == "rpdo" else 0x1A00) + num - 1
    present = set(case["present"])
    cfg = case["cfg"]
    objs = {}
    for idx, sub, n in cfg["map"] + case["dev0"]["ents"]:
        d = objs.setdefault(idx, {})
        d[sub] = max(n, d.get(sub, 0))      # an object mapped twice: its type is as long as the longest mapping
    od = build_od(com_idx, map_idx, present, objs)
    ev = []
    dev = StrictDevice(com_idx, map_idx, case["dev0"], ev)
    dev.present = present

    def mk_node():
        net = canopen.Network(FakeBus())
        node = canopen.RemoteNode(case.get("nid", 5), od)
        net.add_node(node)
        node.sdo.download = dev.download
        node.sdo.upload = dev.upload
        pm = (node.rpdo if kind == "rpdo" else node.tpdo)[num]
        return net, node, pm

    try:
        net1, node1, pm = mk_node()
    except Exception as exc:  # noqa: every PDO number 1..512 the dictionary describes must be there
        ev.append({"e": "nomap", "num": num, "repr": repr(exc)[:120]})
        for i, e in enumerate(ev):
            e["n"] = i + 1
        return {"ev": ev, "dev0": case["dev0"], "kind": kind}
    ev.append({"e": "cfg", **cfg})
    pm.cob_id = cfg["cob"]
    pm.enabled = cfg["enabled"]
    pm.rtr_allowed = cfg["rtr"]
    pm.trans_type = cfg["tt"] if cfg["tt"] >= 0 else None
    pm.inhibit_time = cfg["inhibit"] if cfg["inhibit"] >= 0 else None
    pm.event_timer = cfg["evt"] if cfg["evt"] >= 0 else None
    pm.sync_start_value = cfg["sync"] if cfg["sync"] >= 0 else None
    pm.clear()
    spell = case.get("spell") or []
    for k, (idx, sub, n) in enumerate(cfg["map"]):
        how = spell[k] if k < len(spell) else "num"
        is_rec = list(objs.get(idx, {})) != [0]
        if how == "dotted" and is_rec:        # 'Record.Member'
            pm.add_variable(f"Rec{idx:04X}.Rec{idx:04X}m{sub}", length=n)
        elif how == "names" and is_rec:       # record name, member name
            pm.add_variable(f"Rec{idx:04X}", f"Rec{idx:04X}m{sub}", n)
        elif how in ("dotted", "names") and not is_rec:
            pm.add_variable(f"Obj{idx:04X}", 0, n)
        else:
            pm.add_variable(idx, sub, n)
    raised = False
    try:
        pm.save()
    except Exception as exc:  # noqa
        raised = True
        ev.append({"e": "note", "repr": repr(exc)[:150]})
        ev.pop()
    ev.append({"e": "saved", "raised": raised})
    if case.get("resave"):
        # the device loses its configuration (power cycle) and the same node object saves once more
        present_keep = dev.present
        dev.__init__(com_idx, map_idx, case["dev0"], ev)
        dev.present = present_keep
        ev.append({"e": "devreset"})
        raised = False
        try:
            pm.save()
        except Exception as exc:  # noqa
            raised = True
        ev.append({"e": "saved", "raised": raised})
    net2, node2, pm2 = mk_node()
    raised = False
    try:
        pm2.read()
    except Exception:  # noqa
        raised = True

    def opt(x):
        return -1 if x is None else x
    cob = pm2.cob_id if pm2.cob_id is not None else -1
    subscribed = cob in net2.subscribers and pm2.on_message in net2.subscribers[cob]
    ev.append({"e": "attrs", "raised": raised, "cob": cob, "enabled": bool(pm2.enabled), "rtr": bool(pm2.rtr_allowed),
               "tt": opt(pm2.trans_type), "inhibit": opt(pm2.inhibit_time), "evt": opt(pm2.event_timer),
               "sync": opt(pm2.sync_start_value),
               "map": [[v.index, v.subindex, v.length] for v in pm2.map], "subscribed": bool(subscribed)})
    # configuration taken from the object dictionary: DCF value first, else EDS default
    import random
    rng = random.Random(case.get("seed", 1))
    od3 = build_od(com_idx, map_idx, present, objs)
    words = {("com", 1): cfg["cob"] | (0 if cfg["rtr"] else 1 << 30) | (0 if cfg["enabled"] else 1 << 31),
             ("com", 2): max(cfg["tt"], 0), ("com", 3): max(cfg["inhibit"], 0), ("com", 5): max(cfg["evt"], 0),
             ("com", 6): max(cfg["sync"], 0), ("map", 0): len(cfg["map"])}
    for k, (i, sb, n) in enumerate(cfg["map"], 1):
        words[("map", k)] = i << 16 | sb << 8 | n
    for (kd, sub), w in words.items():
        rec = od3[com_idx if kd == "com" else map_idx]
        if sub not in rec.subindices:
            continue
        var = rec.subindices[sub]
        if rng.random() < 0.5:
            var.value, var.default = w, (w ^ 0x5) & 0xFF
        else:
            var.value, var.default = None, w
    net3 = canopen.Network(FakeBus())
    node3 = canopen.RemoteNode(case.get("nid", 5), od3)
    net3.add_node(node3)
    pm3 = (node3.rpdo if kind == "rpdo" else node3.tpdo)[num]
    cfg3 = dict(cfg)
    cfg3["tt"] = max(cfg["tt"], 0)
    for key, sub in (("inhibit", 3), ("evt", 5), ("sync", 6)):
        cfg3[key] = max(cfg[key], 0) if sub in present else -1
    ev.append({"e": "cfg", **cfg3})
    raised = False
    try:
        pm3.read(from_od=True)
    except Exception:  # noqa
        raised = True
    cob = pm3.cob_id if pm3.cob_id is not None else -1
    subscribed = cob in net3.subscribers and pm3.on_message in net3.subscribers[cob]
    ev.append({"e": "attrs", "raised": raised, "cob": cob, "enabled": bool(pm3.enabled), "rtr": bool(pm3.rtr_allowed),
               "tt": opt(pm3.trans_type), "inhibit": opt(pm3.inhibit_time), "evt": opt(pm3.event_timer),
               "sync": opt(pm3.sync_start_value),
               "map": [[v.index, v.subindex, v.length] for v in pm3.map], "subscribed": bool(subscribed)})
    for i, e in enumerate(ev):
        e["n"] = i + 1
    return {"ev": ev, "dev0": case["dev0"], "kind": kind}
