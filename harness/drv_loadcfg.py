"""Driver for RemoteNode.load_configuration() (Trace_LoadCfg): a generated object dictionary with
configured values, every SDO download of the node redirected to a device model with a reaction
schedule (ok / read-only abort / other abort / time-out)."""
from __future__ import annotations

import random

from harness import enc
from harness.common import B

RO_ABORT = 0x06010002
OTHER_ABORTS = [0x06090030, 0x08000000, 0x06020000, 0x06010000, 0x05040005]


def build(rng: random.Random, with_pdo: bool):
    import canopen
    from canopen.objectdictionary import ODArray, ODRecord, ODVariable
    od = canopen.ObjectDictionary()
    flat = []

    def mkvar(name, idx, sub, parent=None):
        v = ODVariable(name, idx, sub)
        v.data_type = rng.choice([0x2, 0x3, 0x4, 0x5, 0x6, 0x7, 0x9])
        v.access_type = rng.choice(["rw", "rw", "rw", "wo", "ro", "const", "rww", "rwr"])
        val = None
        if rng.random() < 0.7:
            if v.data_type == 0x9:
                val = "".join(rng.choice("abcXYZ 09") for _ in range(rng.randrange(0, 9)))
            else:
                lo, hi = enc.int_range(v.data_type)
                val = rng.choice([lo, hi, 0, rng.randint(lo, hi)])
        v.value = val
        if rng.random() < 0.5:
            v.default = 0 if v.data_type != 0x9 else "d"
        (parent.add_member if parent is not None else od.add_object)(v)
        writable = v.access_type in ("rw", "wo", "rww", "rwr")
        flat.append({"idx": idx, "sub": sub, "pdo": 0x1400 <= idx < 0x1C00, "writable": writable,
                     "hasval": val is not None,
                     "bytes": B(enc.encode(v.data_type, val)) if val is not None else []})
        return v
    idxs = sorted(rng.sample(range(0x1000, 0x1400), 2) + rng.sample(range(0x1C00, 0x7000), rng.randrange(1, 8)))
    for idx in idxs:
        kind = rng.choice(["var", "var", "rec", "arr"])
        if kind == "var":
            mkvar(f"V{idx:X}", idx, 0)
        else:
            c = (ODRecord if kind == "rec" else ODArray)(f"C{idx:X}", idx)
            od.add_object(c)
            for sub in sorted(rng.sample(range(0, 12), rng.randrange(1, 5))):
                mkvar(f"M{idx:X}_{sub}", idx, sub, c)
    if with_pdo:
        # any number of RPDOs and TPDOs (not necessarily as many of the one as of the other)
        pdos = [(0x1400 + k, 0x1600 + k, 0x200 + 0x100 * k) for k in range(rng.randrange(1, 4))] + \
               [(0x1800 + k, 0x1A00 + k, 0x180 + 0x100 * k) for k in range(rng.randrange(1, 4))]
        configured = rng.random() < 0.6       # the values come from a DCF (ParameterValue), not only from defaults
        for base, mbase, cob in pdos:
            com = ODRecord(f"com{base:X}", base)
            od.add_object(com)
            for sub, dt, dv in ((0, 0x5, 2), (1, 0x7, cob + 5), (2, 0x5, 255)):
                v = ODVariable(f"c{sub}", base, sub)
                v.data_type, v.default, v.access_type = dt, dv, "rw"
                if configured:
                    v.value = dv
                com.add_member(v)
            mp = ODArray(f"map{mbase:X}", mbase)
            od.add_object(mp)
            for sub in range(0, 3):
                v = ODVariable(f"m{sub}", mbase, sub)
                v.data_type, v.access_type = (0x5 if sub == 0 else 0x7), "rw"
                v.default = 1 if sub == 0 else (0x20000010 if sub == 1 else 0)
                if configured:
                    v.value = v.default
                mp.add_member(v)
        v = ODVariable("mapped", 0x2000, 0)
        v.data_type, v.access_type = 0x6, "rw"
        if 0x2000 not in od:
            od.add_object(v)
            flat.append({"idx": 0x2000, "sub": 0, "pdo": False, "writable": True, "hasval": False, "bytes": []})
    flat.sort(key=lambda o: (o["idx"], o["sub"]))
    return od, flat


def run_case(case: dict) -> dict:
    import logging
    logging.disable(logging.CRITICAL)
    import canopen
    rng = random.Random(case["seed"])
    od, flat = build(rng, case.get("with_pdo", False))
    node = canopen.RemoteNode(5, od)
    net = canopen.Network()
    from harness.bus import FakeBus
    net.bus = FakeBus()
    net.add_node(node)
    ev = []
    reacts = list(case.get("reacts") or [])
    nonpdo = [0]

    def download(index, subindex, data, force_segment=False):
        react, code = "ok", 0
        if not 0x1400 <= index < 0x1C00:
            if nonpdo[0] < len(reacts):
                react = reacts[nonpdo[0]]
            nonpdo[0] += 1
        if react == "ro":
            code = RO_ABORT
        elif react == "abort":
            code = OTHER_ABORTS[(index + subindex) % len(OTHER_ABORTS)]
        ev.append({"e": "w", "idx": index, "sub": subindex, "d": B(bytes(data)), "react": react, "code": code})
        if react in ("ro", "abort"):
            raise canopen.SdoAbortedError(code)
        if react == "timeout":
            raise canopen.SdoCommunicationError("No SDO response received")

    def upload(index, subindex):
        raise canopen.SdoAbortedError(0x06020000)
    node.sdo.download = download
    node.sdo.upload = upload
    try:
        node.load_configuration()
        ev.append({"e": "ret"})
    except canopen.SdoAbortedError as exc:
        ev.append({"e": "raise", "cls": "SdoAbortedError", "code": exc.code})
    except Exception as exc:  # noqa
        ev.append({"e": "raise", "cls": type(exc).__name__, "code": 0, "repr": str(exc)[:120]})
    for i, e in enumerate(ev):
        e["n"] = i + 1
    return {"ev": ev, "od": flat}
