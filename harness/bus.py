"""Harness-side CAN bus: every outgoing frame of the library passes through FakeBus.send (called
under Network.send_lock, i.e. at the frame's linearization point)."""
from __future__ import annotations

import collections
import queue
import types


class FakeTask:
    """Stand-in for python-can's cyclic send task."""

    def __init__(self, bus, msg, period, modifiable):
        self.bus = bus
        self.msg = msg
        # the frame is handed over when the task is created and whenever modify_data() is called
        # (hardware / kernel cyclic transmission copies it): changes of the message object made at any
        # other time are not seen by the bus
        self.frozen = bytes(msg.data)
        self.period = period
        self.running = True
        self.tid = bus._next_tid
        bus._next_tid += 1
        bus.tasks.append(self)
        if modifiable:
            self.modify_data = self._modify_data

    def stop(self):
        self.running = False

    def _modify_data(self, msg):
        self.msg = msg
        self.frozen = bytes(msg.data)

    def project(self):
        m = self.msg
        return {"tid": self.tid, "id": m.arbitration_id,
                "d": list(self.frozen if self.frozen is not None else bytes(m.data)),
                "ext": bool(m.is_extended_id), "rtr": bool(m.is_remote_frame),
                "period_us": int(round(self.period * 1e6))}


class FakeBus:
    """on_send(msg) is called for every frame; sent keeps them all."""
    channel_info = "verif-fake-bus"

    def __init__(self, on_send=None, modifiable_tasks=True):
        self.on_send = on_send
        self.sent = []
        self.tasks = []
        self._next_tid = 1
        self.modifiable_tasks = modifiable_tasks
        self.shut = False

    def send(self, msg, timeout=None):
        self.sent.append(msg)
        if self.on_send is not None:
            self.on_send(msg)

    def send_periodic(self, msg, period, duration=None, store_task=True, **kw):
        # a producer that starts a task while its previous one is still running has two of them for
        # a moment ("at every moment at most one"): counted here, reported by the drivers
        if any(t.running and t.msg.arbitration_id == msg.arbitration_id for t in self.tasks):
            self.overlaps = getattr(self, "overlaps", 0) + 1
        return FakeTask(self, msg, period, self.modifiable_tasks)

    def shutdown(self):
        self.shut = True

    def live_tasks(self):
        return [t.project() for t in self.tasks if t.running]

    def __bool__(self):
        return True


class InstantQueue:
    """Replacement for queue.Queue in single-threaded (inline) runs: an empty queue at get() time
    means that no response can arrive any more, i.e. the time-out fires at once (virtual time)."""

    def __init__(self, maxsize=0):
        self.q = collections.deque()

    def put(self, item, block=True, timeout=None):
        self.q.append(item)

    def get(self, block=True, timeout=None):
        if self.q:
            return self.q.popleft()
        raise queue.Empty

    def empty(self):
        return not self.q

    def qsize(self):
        return len(self.q)


INSTANT_QUEUE_MODULE = types.SimpleNamespace(Queue=InstantQueue, Empty=queue.Empty)


class FakeTime:
    """Virtual clock for modules that poll time.time()/monotonic() and sleep."""

    def __init__(self, start=1000.0, tick=0.0):
        self.now = start
        self.tick = tick

    def time(self):
        self.now += self.tick
        return self.now

    monotonic = time

    def sleep(self, s):
        self.now += max(0.0, s)
