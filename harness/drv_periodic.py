"""Driver for C17: call sequences on the SYNC producer, a PDO map, the heartbeat producer of a local
node and node guarding of a remote node; the live cyclic-task set of the harness bus is logged after
every call (both bus flavours: tasks with and without modify_data)."""
from __future__ import annotations

from harness.bus import FakeBus

NAMES = {0: "INITIALISING", 4: "STOPPED", 5: "OPERATIONAL", 127: "PRE-OPERATIONAL"}
CMD = {5: 1, 4: 2, 127: 128, 0: 129}


def build_od():
    import canopen
    from canopen.objectdictionary import ODArray, ODRecord, ODVariable
    od = canopen.ObjectDictionary()

    def var(name, idx, sub, dt, default=None, parent=None):
        v = ODVariable(name, idx, sub)
        v.data_type = dt
        v.default = default
        (parent.add_member if parent is not None else od.add_object)(v)
        return v
    var("Producer heartbeat time", 0x1017, 0, 0x6, 0)
    var("Value", 0x2000, 0, 0x6, 0)
    var("Nibble", 0x2001, 0, 0x5, 0)
    var("Value8", 0x2002, 0, 0x5, 0)
    com = ODRecord("TPDO1 com", 0x1800)
    od.add_object(com)
    var("n", 0x1800, 0, 0x5, 2, com)
    var("cob", 0x1800, 1, 0x7, 0x181, com)
    var("type", 0x1800, 2, 0x5, 254, com)
    mp = ODArray("TPDO1 map", 0x1A00)
    od.add_object(mp)
    var("n", 0x1A00, 0, 0x5, 0, mp)
    var("m1", 0x1A00, 1, 0x7, 0, mp)
    com = ODRecord("RPDO1 com", 0x1400)
    od.add_object(com)
    var("n", 0x1400, 0, 0x5, 2, com)
    var("cob", 0x1400, 1, 0x7, 0x201, com)
    var("type", 0x1400, 2, 0x5, 254, com)
    mp = ODArray("RPDO1 map", 0x1600)
    od.add_object(mp)
    var("n", 0x1600, 0, 0x5, 0, mp)
    var("m1", 0x1600, 1, 0x7, 0, mp)
    return od


def run_case(case: dict) -> dict:
    import logging
    logging.disable(logging.CRITICAL)
    import canopen
    nid = case.get("nid", 1)
    bus = FakeBus(modifiable_tasks=case.get("modifiable", True))
    net = canopen.Network(bus)
    od = build_od()
    lnode = canopen.LocalNode(nid, od)
    net.add_node(lnode)
    rnode = canopen.RemoteNode(nid + 1, od)
    net.add_node(rnode)
    # the map whose periodic transmission is driven: any map of any node kind can be started
    pdo = {"ltpdo": lnode.tpdo, "lrpdo": lnode.rpdo, "rtpdo": rnode.tpdo, "rrpdo": rnode.rpdo}[
        case.get("pdomap", "ltpdo")][1]
    pdo.cob_id = case.get("pdoid", 0x181)
    straddle = case.get("pdolayout") == "straddle"
    if straddle:
        # a 4-bit field, then an 8-bit object at bits 4..11: it reaches into the second byte
        pdo.add_variable(0x2001, 0, 4)
        pdo.add_variable(0x2002, 0, 8)
    else:
        pdo.add_variable(0x2000, 0, 16)
    ev = []

    def live():
        return [{"id": t["id"], "d": t["d"], "period_us": t["period_us"], "rtr": t["rtr"], "ext": t["ext"]}
                for t in bus.live_tasks()]

    def log(e, raised=False):
        e["raised"] = raised
        e["live"] = live()
        e["overlap"] = getattr(bus, "overlaps", 0)      # tasks started while the same producer's task was running
        bus.overlaps = 0
        ev.append(e)

    for op in case["ops"]:
        o = op["op"]
        raised = False
        try:
            if o == "sync_start":
                try:
                    net.sync.start(op["period_us"] / 1e6 if op["period_us"] else None)
                except ValueError:
                    raised = True
                log({"e": o, "period_us": op["period_us"]}, raised)
            elif o == "sync_stop":
                net.sync.stop()
                log({"e": o})
            elif o == "pdo_start":
                try:
                    pdo.start(op["period_us"] / 1e6 if op["period_us"] else None)
                except ValueError:
                    raised = True
                log({"e": o, "period_us": op["period_us"]}, raised)
            elif o == "pdo_stop":
                pdo.stop()
                log({"e": o})
            elif o == "sync_cob":
                net.sync.cob_id = op["id"]
                log({"e": o, "id": op["id"]})
            elif o == "pdo_echo":
                # a frame with the map's own COB-ID reaches the network (time stamps in half seconds)
                # (not on an id another service of the two nodes listens to: a two-byte frame there is that
                #  service's business -- the EMCY consumer raises on it -- and never reaches the map)
                skipped = pdo.cob_id in (0, None, 0x80 + nid + 1, 0x580 + nid + 1, 0x700 + nid + 1, 0x600 + nid,
                                         0x700 + nid, 0x80, 0x7E4, 0x7E5)
                if not skipped:
                    pdo.enabled = True
                    pdo.subscribe()
                    net.notify(pdo.cob_id, bytearray(op["d"]), op["ts"] / 2)
                log({"e": o, "d": list(op["d"]), "ts": op["ts"], "skipped": skipped})
            elif o == "pdo_cob":
                pdo.cob_id = op["id"]
                log({"e": o, "id": op["id"]})
            elif o == "pdo_set":
                if straddle:
                    # only the 8-bit object is written; the frame the bus must carry is computed here
                    nib = bytes(pdo.data)[0] & 0x0F
                    top = (bytes(pdo.data)[1] & 0xF0) << 8       # (bits 12..15: only a received frame sets them)
                    pdo[1].raw = op["d"][0]
                    frame = nib | (op["d"][0] << 4) | top
                    log({"e": o, "d": [frame & 0xFF, frame >> 8]})
                else:
                    pdo[0].raw = op["d"][0] | op["d"][1] << 8
                    log({"e": o, "d": list(op["d"])})
            elif o == "hb_start":
                lnode.nmt.start_heartbeat(op["ms"])
                log({"e": o, "ms": op["ms"]})
            elif o == "hb_stop":
                lnode.nmt.stop_heartbeat()
                log({"e": o})
            elif o == "write1017":
                lnode.sdo[0x1017].raw = op["ms"]
                log({"e": o, "ms": op["ms"]})
            elif o == "write1017_bad":
                # a download of the wrong length is refused: the producer goes on exactly as before
                refused = False
                try:
                    lnode.sdo.download(0x1017, 0, op["ms"].to_bytes(op["len"], "little"))
                except Exception:  # noqa
                    refused = True
                log({"e": o, "ms": op["ms"], "refused": refused})
            elif o == "nmt":
                if op["api"]:
                    lnode.nmt.state = NAMES[op["state"]]
                else:
                    net.notify(0, bytearray([CMD[op["state"]], nid if op.get("target") is None else op["target"]]), 0.0)
                log({"e": o, "state": op["state"], "api": bool(op["api"])})
            elif o == "ng_start":
                rnode.nmt.start_node_guarding(op["period_us"] / 1e6)
                log({"e": o, "period_us": op["period_us"]})
            elif o == "ng_stop":
                rnode.nmt.stop_node_guarding()
                log({"e": o})
            elif o == "disconnect":
                net.disconnect()
                net.bus = bus          # re-attach so that the sequence can continue
                log({"e": o})
        except Exception as exc:  # noqa
            log({"e": o, "repr": repr(exc)[:200], **{k: v for k, v in op.items() if k != "op"}}, True)
    for i, e in enumerate(ev):
        e["n"] = i + 1
    return {"ev": ev, "nid": nid, "pdoid": case.get("pdoid", 0x181), "pdodata": [0, 0]}
