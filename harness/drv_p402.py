"""Driver for C19: the real BaseNode402 against a CiA 402 drive simulator (SDO or PDO transport,
virtual time); statusword reads, controlword writes and automatic transitions are logged."""
from __future__ import annotations

import struct

from harness.bus import FakeBus, FakeTime

BASE = {"NOT READY TO SWITCH ON": 0x00, "SWITCH ON DISABLED": 0x40, "READY TO SWITCH ON": 0x21, "SWITCHED ON": 0x23,
        "OPERATION ENABLED": 0x27, "QUICK STOP ACTIVE": 0x07, "FAULT REACTION ACTIVE": 0x0F, "FAULT": 0x08}
M4F = {"NOT READY TO SWITCH ON", "SWITCH ON DISABLED", "FAULT REACTION ACTIVE", "FAULT"}
AUTO = {"NOT READY TO SWITCH ON": "SWITCH ON DISABLED", "FAULT REACTION ACTIVE": "FAULT"}


def drive_step(s, cw, prev):
    b = lambda k: (cw >> k) & 1  # noqa
    dv, qs = b(1) == 0, b(1) == 1 and b(2) == 0
    sd = b(0) == 0 and b(1) == 1 and b(2) == 1
    so, eo = cw & 0xF == 7, cw & 0xF == 15
    reset = b(7) == 1 and (prev >> 7) & 1 == 0
    if s == "FAULT":
        return "SWITCH ON DISABLED" if reset else s
    if s == "SWITCH ON DISABLED":
        return "READY TO SWITCH ON" if sd else s
    if s == "READY TO SWITCH ON":
        return "SWITCH ON DISABLED" if dv or qs else "SWITCHED ON" if so else "OPERATION ENABLED" if eo else s
    if s == "SWITCHED ON":
        return "SWITCH ON DISABLED" if dv or qs else "READY TO SWITCH ON" if sd else "OPERATION ENABLED" if eo else s
    if s == "OPERATION ENABLED":
        return "SWITCH ON DISABLED" if dv else "QUICK STOP ACTIVE" if qs else "READY TO SWITCH ON" if sd else \
            "SWITCHED ON" if so else s
    if s == "QUICK STOP ACTIVE":
        return "SWITCH ON DISABLED" if dv else "OPERATION ENABLED" if eo else s
    return s


def build_od():
    import canopen
    from canopen.objectdictionary import ODArray, ODRecord, ODVariable
    od = canopen.ObjectDictionary()
    for idx, dt, name in ((0x6040, 0x6, "Controlword"), (0x6041, 0x6, "Statusword"), (0x6060, 0x2, "Modes of operation"),
                          (0x6061, 0x2, "Modes of operation display"), (0x6502, 0x7, "Supported drive modes")):
        v = ODVariable(name, idx, 0)
        v.data_type = dt
        od.add_object(v)
    for base, mbase in ((0x1400, 0x1600), (0x1401, 0x1601), (0x1800, 0x1A00)):
        com = ODRecord(f"com{base:X}", base)
        od.add_object(com)
        for sub, dt in ((0, 0x5), (1, 0x7), (2, 0x5)):
            v = ODVariable(f"c{sub}", base, sub)
            v.data_type = dt
            com.add_member(v)
        mp = ODArray(f"map{mbase:X}", mbase)
        od.add_object(mp)
        for sub in range(0, 9):
            v = ODVariable(f"m{sub}", mbase, sub)
            v.data_type = 0x5 if sub == 0 else 0x7
            mp.add_member(v)
    return od


class Runaway(BaseException):
    """the call under test exceeded every plausible number of steps (not an Exception: the library's
    own handlers must not swallow it)"""


STEP_CAP = 3000        # drive interactions / clock reads x10 per assignment; the unchanged library needs < 200


class CappedTime(FakeTime):
    def __init__(self, **kw):
        super().__init__(**kw)
        self.calls = 0

    def time(self):
        self.calls += 1
        if self.calls > 10 * STEP_CAP:
            raise Runaway("clock polled without end")
        return super().time()

    monotonic = time

    def sleep(self, s):
        self.calls += 1
        if self.calls > 10 * STEP_CAP:
            raise Runaway("sleeping without end")
        super().sleep(s)


class Drive:
    def __init__(self, ev, state, extra, auto_after, mask=0x3EF):
        self.ev, self.state, self.extra, self.auto_after = ev, state, extra, auto_after
        self.prev = 0
        self.events = 0
        self.mode = 0
        self.mask = mask
        self.mode_writes = []
        self.pdo_modes = []
        self.on_change = None
        self.lag = 0            # > 0: a commanded transition shows only after that many further accesses
        self.pending = None

    def sw(self):
        v = BASE[self.state]
        if self.extra:
            v |= 0xFFB0 if self.state in M4F else 0xFF90
        return v

    def tick(self):
        """called before serving any event: the automatic transition may fire here"""
        self.events += 1
        self.in_call = getattr(self, "in_call", 0) + 1
        if getattr(self, "cap_on", False) and self.in_call > STEP_CAP:
            raise Runaway("drive interactions without end")
        if self.pending is not None and self.events >= self.pending[1]:
            self.state, self.pending = self.pending[0], None
            self.ev.append({"e": "lagged", "to": self.state})
            if self.on_change:
                self.on_change()
        if self.auto_after is not None and self.events > self.auto_after and self.state in AUTO:
            self.state = AUTO[self.state]
            self.ev.append({"e": "auto"})
            if self.on_change:
                self.on_change()

    def read_sw(self):
        self.tick()
        v = self.sw()
        self.ev.append({"e": "sw", "val": v})
        return v

    def write_cw(self, cw):
        self.tick()
        new = drive_step(self.state, cw, self.prev)
        ign = False
        if self.state == "FAULT" and new != "FAULT" and getattr(self, "sticky", 0) > 0:
            # the cause of the fault is still present: this reset attempt has no effect
            self.sticky -= 1
            new, ign = "FAULT", True
        self.prev = cw
        if self.lag:
            self.pending = (new, self.events + self.lag) if new != self.state else None
            self.ev.append({"e": "cw", "val": cw, "after": self.state, "lag": True, "ign": ign})
            return
        self.state = new
        self.ev.append({"e": "cw", "val": cw, "after": new, "lag": False, "ign": ign})
        if self.on_change:
            self.on_change()

    # SDO accessors
    def upload(self, index, subindex):
        if index == 0x6041:
            return struct.pack("<H", self.read_sw())
        if index == 0x6061:
            return struct.pack("<b", self.mode)
        if index == 0x6502:
            return struct.pack("<L", self.mask)
        import canopen
        raise canopen.SdoAbortedError(0x06020000)

    def download(self, index, subindex, data, force_segment=False):
        if index == 0x6040:
            self.write_cw(struct.unpack("<H", bytes(data))[0])
        elif index == 0x6060:
            self.mode = struct.unpack("<b", bytes(data))[0]
            self.mode_writes.append(self.mode)
        else:
            import canopen
            raise canopen.SdoAbortedError(0x06020000)


def mk_node(drive, transport, nid=3, with_mode=False):
    import canopen
    import canopen.profiles.p402 as p402
    p402.time = CappedTime(tick=0.01)
    net = canopen.Network()
    node = p402.BaseNode402(nid, build_od())

    def on_send(msg):
        if transport == "sdo_dis":
            return          # the drive's RPDO is switched off: it does not listen to PDO frames
        if msg.arbitration_id == 0x300 + nid and not msg.is_remote_frame and with_mode == "split":
            m = struct.unpack_from("<b", bytes(msg.data))[0]      # RPDO2 = modes of operation
            drive.mode = m
            drive.mode_writes.append(m)
            return
        if msg.arbitration_id == 0x200 + nid and not msg.is_remote_frame:
            d = bytes(msg.data)
            if len(d) >= 3:                 # RPDO1 = controlword + modes of operation
                m = struct.unpack_from("<b", d, 2)[0]
                drive.pdo_modes.append(m)
                drive.mode = m
            drive.write_cw(struct.unpack_from("<H", d)[0])
    net.bus = FakeBus(on_send)
    net.add_node(node)
    node.sdo.upload = drive.upload
    node.sdo.download = drive.download
    if transport == "sdo_dis":
        # controlword and mode are mapped in an RPDO that is switched off (a leftover default
        # mapping): the objects must be reached by SDO
        rp = node.rpdo[1]
        rp.cob_id, rp.enabled = 0x200 + nid, False
        rp.add_variable(0x6040, 0)
        rp.add_variable(0x6060, 0)
        tp = node.tpdo[1]          # the statusword likewise, in a TPDO that is switched off
        tp.cob_id, tp.enabled = 0x180 + nid, False
        tp.add_variable(0x6041, 0)
        node.setup_pdos(upload=False)
    if transport == "pdo":
        rp, tp = node.rpdo[1], node.tpdo[1]
        rp.cob_id, rp.enabled = 0x200 + nid, True
        rp.add_variable(0x6040, 0)
        if with_mode == "split":
            # controlword in RPDO1, modes of operation in RPDO2
            rp2 = node.rpdo[2]
            rp2.cob_id, rp2.enabled = 0x300 + nid, True
            rp2.add_variable(0x6060, 0)
        elif with_mode:
            rp.add_variable(0x6060, 0)
        tp.cob_id, tp.enabled = 0x180 + nid, True
        tp.add_variable(0x6041, 0)
        node.setup_pdos(upload=False)

        def push():
            net.notify(0x180 + nid, bytearray(struct.pack("<H", drive.sw())), 0.0)
        drive.on_change = push
        push()
    return net, node


def run_case(case: dict) -> dict:
    import logging
    logging.disable(logging.CRITICAL)
    ev = []
    if case["kind"] == "opmode" and case.get("transport") == "pdo":
        # controlword and modes of operation share RPDO1: after every request the state is toggled so
        # that the RPDO goes out; the drive logs the mode byte of every RPDO it receives
        import random
        rng = random.Random(case.get("seed", 0))
        for mask in case["masks"]:
            drive = Drive([], "SWITCH ON DISABLED", False, None, mask)
            net, node = mk_node(drive, "pdo", with_mode=True)
            prev, flip = 0, 0
            modes = list(case["modes"])
            rng.shuffle(modes)
            for mode in modes:
                del drive.pdo_modes[:]
                res = "ok"
                import canopen.profiles.p402 as p402
                p402.time.calls = 0
                try:
                    node.op_mode = mode
                except TypeError:
                    res = "TypeError"
                except (Exception, Runaway) as exc:  # noqa
                    res = "other:" + type(exc).__name__
                p402.time.calls = 0
                try:
                    node.state = ["READY TO SWITCH ON", "SWITCH ON DISABLED"][flip]
                    flip ^= 1
                except (Exception, Runaway):  # noqa
                    pass
                ev.append({"e": "opmode_pdo", "mode": mode, "mask": mask & 0xFFFF, "seen": list(drive.pdo_modes),
                           "prev": prev, "result": res})
                if res == "ok":
                    prev = drive.mode
    elif case["kind"] == "opmode":
        import canopen  # noqa
        for mask in case["masks"]:
            for mode in case["modes"]:
                drive = Drive([], "SWITCH ON DISABLED", False, None, mask)
                if case.get("transport") == "pdo_split":
                    net, node = mk_node(drive, "pdo", with_mode="split")
                else:
                    net, node = mk_node(drive, case.get("transport", "sdo"))
                res = "ok"
                import canopen.profiles.p402 as p402
                p402.time.calls = 0
                try:
                    node.op_mode = mode
                except TypeError:
                    res = "TypeError"
                except (Exception, Runaway) as exc:  # noqa
                    res = "other:" + type(exc).__name__
                ev.append({"e": "opmode", "mode": mode, "mask": mask & 0xFFFF, "writes": list(drive.mode_writes), "result": res})
    else:
        drive = Drive(ev, case["init"], case.get("extra", False), case.get("auto_after"))
        drive.lag = case.get("lag", 0)
        drive.sticky = case.get("sticky", 0)
        ev.append({"e": "init", "state": case["init"]})
        net, node = mk_node(drive, case.get("transport", "sdo"))
        for target in case["targets"]:
            if target.startswith("!"):
                # the drive changes state by itself between two assignments (fault, lost supply, ...)
                drive.state, drive.pending = target[1:], None
                ev.append({"e": "ext", "to": drive.state})
                if drive.on_change:
                    drive.on_change()
                continue
            ev.append({"e": "target", "name": target})
            t_idx = len(ev)
            drive.in_call, drive.cap_on = 0, True
            import canopen.profiles.p402 as p402
            p402.time.calls = 0
            try:
                node.state = target
                ev.append({"e": "ret"})
            except Runaway as exc:
                del ev[t_idx + 40:]     # keep the trace small
                ev.append({"e": "runaway", "repr": str(exc)})
                break
            except Exception as exc:  # noqa
                ev.append({"e": "raise", "cls": type(exc).__name__, "repr": str(exc)[:100]})
    for i, e in enumerate(ev):
        e["n"] = i + 1
    return {"ev": ev}


def sw_table(_case=None):
    import logging
    logging.disable(logging.CRITICAL)
    drive = Drive([], "SWITCH ON DISABLED", False, None)
    via_pdo = _case == "pdo"
    net, node = mk_node(drive, "pdo" if via_pdo else "sdo")
    rows = []
    for sw in range(65536):
        if via_pdo:
            # the statusword arrives in TPDO1; an SDO read of 0x6041 would tell another story
            drive.sw = lambda: 0x0637
            net.notify(0x180 + node.id, bytearray(struct.pack("<H", sw)), 0.0)
        else:
            drive.sw = lambda _v=sw: _v
        try:
            rows.append({"sw": sw, "state": node.state})
        except Exception as exc:  # noqa: decoding a statusword must not fail
            rows.append({"sw": sw, "state": "EXCEPTION " + type(exc).__name__})
    return rows


# ---- homing / fault reset (spec/Homing.tla, Trace_Homing.tla) -----------------------------------
HBITS = {"IN PROGRESS": 0, "INTERRUPTED": 0x400, "ATTAINED": 0x1000, "TARGET REACHED": 0x1400,
         "ERROR VELOCITY IS NOT ZERO": 0x2000, "ERROR VELOCITY IS ZERO": 0x2400}


class HDrive(Drive):
    """reference drive with a homing run: accepted on the rising edge of controlword bit 4 while
    OPERATION ENABLED in homing mode; the outcome shows after `delay` statusword reads"""

    def __init__(self, ev, state, mode, mask, delay, outcome):
        super().__init__(ev, state, False, None, mask)
        self.mode, self.delay, self.outcome = mode, delay, outcome
        self.run, self.reads = "idle", 0

    def sw(self):
        shown = self.outcome if self.run == "running" and self.reads >= self.delay else "IN PROGRESS"
        return BASE[self.state] | HBITS[shown]

    def read_sw(self):
        v = super().read_sw()
        self.reads += 1
        return v

    def write_cw(self, cw):
        accepted = (cw >> 4) & 1 and not (self.prev >> 4) & 1 and self.state == "OPERATION ENABLED" and self.mode == 6
        super().write_cw(cw)
        if accepted:
            self.run, self.reads = "running", 0

    def download(self, index, subindex, data, force_segment=False):
        if index == 0x6060:
            self.mode = struct.unpack("<b", bytes(data))[0]
            self.ev.append({"e": "modew", "val": self.mode})
        else:
            super().download(index, subindex, data, force_segment)


def run_homing(case: dict) -> dict:
    import logging
    logging.disable(logging.CRITICAL)
    import canopen.profiles.p402 as p402
    ev = []
    drive = HDrive(ev, case["init"], case["mode0"], 0x3EF if case["supported"] else 0x3CF, case["delay"], case["outcome"])
    net, node = mk_node(drive, "sdo")
    drive.cap_on = True
    for op in case["ops"]:
        drive.in_call = 0
        p402.time.calls = 0
        name = op["name"]
        restore = bool(op.get("restore"))
        try:
            if name == "homing":
                ev.append({"e": "hcall", "restore": restore})
                r = node.homing(timeout=op.get("timeout", 2), restore_op_mode=restore)
                ev.append({"e": "hret", "result": bool(r)})
            elif name == "is_homed":
                ev.append({"e": "qcall", "restore": restore})
                r = node.is_homed(restore_op_mode=restore)
                ev.append({"e": "qret", "result": bool(r)})
            else:
                ev.append({"e": "rcall", "restore": False})
                node.reset_from_fault()
                ev.append({"e": "rret"})
        except Runaway as exc:
            ev.append({"e": "raise", "cls": "Runaway(" + str(exc) + ")"})
            break
        except Exception as exc:  # noqa
            ev.append({"e": "raise", "cls": type(exc).__name__, "repr": str(exc)[:100]})
            break
    # keep traces small: the polling reads in the middle of a long wait are uniform
    for i, e in enumerate(ev):
        e["n"] = i + 1
    return {"ev": ev, "init": case["init"], "mode0": case["mode0"], "supported": bool(case["supported"]),
            "delay": case["delay"], "outcome": case["outcome"]}
