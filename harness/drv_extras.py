"""Driver for the behaviours beyond the listed properties (specification growth)."""
from __future__ import annotations

import struct

from harness import bus as hbus
from harness.bus import FakeBus, FakeTime
from harness.common import B


def run_case(case):
    import logging
    import queue as real_queue
    import random
    import types
    logging.disable(logging.CRITICAL)
    import canopen
    import canopen.lss as lss_mod
    import canopen.sdo.client as client_mod
    client_mod.queue = hbus.INSTANT_QUEUE_MODULE
    lss_mod.queue = types.SimpleNamespace(Queue=hbus.InstantQueue, Empty=real_queue.Empty)
    lss_mod.time = FakeTime()
    rng = random.Random(case["seed"])
    frames = []
    net = canopen.Network()

    def on_send(msg):
        frames.append({"id": msg.arbitration_id, "d": B(msg.data), "rtr": bool(msg.is_remote_frame)})
        if 0x600 < msg.arbitration_id < 0x680 and len(msg.data) == 8 and msg.data[0] >> 5 == 1:
            net.notify(msg.arbitration_id - 0x80, bytearray([0x60]) + bytearray(msg.data[1:4]) + bytearray(4), 0.0)
        if msg.arbitration_id == 0x607 and len(msg.data) == 8 and msg.data[0] >> 5 == 2:
            # upload request: the device answers with the one-byte "number of entries" it holds
            dev["uploads"].append([msg.data[1] | msg.data[2] << 8, msg.data[3]])
            net.notify(0x587, bytearray([0x4F]) + bytearray(msg.data[1:4]) + bytearray([dev["n"], 0, 0, 0]), 0.0)
    dev = {"n": 0, "uploads": []}
    net.bus = FakeBus(on_send)
    net.lss.responses = hbus.InstantQueue()
    from canopen.objectdictionary import ODArray, ODRecord, ODVariable
    od = canopen.ObjectDictionary()
    arr = ODArray("Values", 0x2100)
    for sub, dt in ((0, 0x5), (1, 0x6)):
        v = ODVariable("Number of entries" if sub == 0 else "Value", 0x2100, sub)
        v.data_type = dt
        arr.add_member(v)
    od.add_object(arr)
    recsubs = case.get("recsubs", [0, 1, 2])
    rec = ODRecord("Settings", 0x2200)
    for sub in recsubs:
        v = ODVariable(f"member {sub}", 0x2200, sub)
        v.data_type = 0x5
        rec.add_member(v)
    od.add_object(rec)
    node = canopen.RemoteNode(7, od)
    net.add_node(node)
    ev = []
    for _ in range(case["n"]):
        del frames[:]
        k = rng.choice(["sync", "time", "search", "store", "restore", "identify", "identify_nc", "arrview", "recview"])
        if k == "arrview":
            # the array view of a remote node: length, iteration and membership follow the number of
            # entries the DEVICE reports in sub-index 0 at that moment (one upload per question)
            dev["n"] = rng.choice([0, 1, 2, 7, 254, rng.randrange(255)])
            view = node.sdo[0x2100] if rng.random() < 0.5 else node.sdo["Values"]
            e = {"e": "arrview", "cnt": dev["n"], "reads": []}
            del dev["uploads"][:]
            e["len"] = len(view)
            e["reads"].append(list(dev["uploads"]))
            del dev["uploads"][:]
            e["iter"] = [x for x in view]           # (list(view) would ask for the length as well)
            e["reads"].append(list(dev["uploads"]))
            e["contains"] = []
            for s_ in (0, 1, dev["n"], dev["n"] + 1, 255, rng.randrange(256)):
                del dev["uploads"][:]
                e["contains"].append([s_ + 1, s_ in view])        # (logged + 1: naturals for TLC)
                e["reads"].append(list(dev["uploads"]))
            ev.append(e)
            continue
        if k == "recview":
            view = node.sdo[0x2200] if rng.random() < 0.5 else node.sdo["Settings"]
            del dev["uploads"][:]
            e = {"e": "recview", "subs": list(recsubs), "len": len(view), "iter": list(view), "contains": [], "names": []}
            for s_ in (0, 1, 2, 5, 255, rng.randrange(256)):
                e["contains"].append([s_, s_ in view])
                e["names"].append([s_, f"member {s_}" in view])
            e["traffic"] = len(dev["uploads"])
            ev.append(e)
            continue
        if k == "sync":
            c = rng.choice([-1, 0, 1, 240, 255])
            net.sync.transmit(None if c < 0 else c)
            ev.append({"e": "sync", "count": c, "frames": list(frames)})
        elif k == "time":
            ts = rng.randrange(1, 2 ** 31)
            net.time.transmit(ts)
            days, secs = divmod(ts, 86400)
            ev.append({"e": "time", "ms": secs * 1000, "days": days, "frames": list(frames)})
        elif k == "search":
            lim = rng.choice([1, 5, 127])
            net.scanner.search(lim)
            ev.append({"e": "search", "limit": lim, "frames": list(frames)})
        elif k in ("store", "restore"):
            sub = rng.choice([1, 2, 3, 4, 127])
            (node.store if k == "store" else node.restore)(sub)
            ev.append({"e": k, "sub": sub, "reqs": [f["d"] for f in frames if f["id"] == 0x607]})
        elif k == "identify":
            ids = [rng.getrandbits(32) for _ in range(6)]
            net.lss.send_identify_remote_slave(*ids)
            ev.append({"e": "identify", "ids": [B(struct.pack("<I", x)) for x in ids], "frames": list(frames)})
        else:
            net.lss.send_identify_non_configured_remote_slave()
            ev.append({"e": "identify_nc", "frames": list(frames)})
    for i, e in enumerate(ev):
        e["n"] = i + 1
    return {"ev": ev}
