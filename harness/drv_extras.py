"""Driver for the behaviours beyond the listed properties (specification growth)."""
from __future__ import annotations

import struct

from harness import bus as hbus
from harness.bus import FakeBus, FakeTime
from harness.common import B


def run_case(case):
    import logging
    import queue as real_queue
    import random
    import types
    logging.disable(logging.CRITICAL)
    import canopen
    import canopen.lss as lss_mod
    import canopen.sdo.client as client_mod
    client_mod.queue = hbus.INSTANT_QUEUE_MODULE
    lss_mod.queue = types.SimpleNamespace(Queue=hbus.InstantQueue, Empty=real_queue.Empty)
    lss_mod.time = FakeTime()
    rng = random.Random(case["seed"])
    frames = []
    net = canopen.Network()

    def on_send(msg):
        frames.append({"id": msg.arbitration_id, "d": B(msg.data), "rtr": bool(msg.is_remote_frame)})
        if 0x600 < msg.arbitration_id < 0x680 and len(msg.data) == 8 and msg.data[0] >> 5 == 1:
            net.notify(msg.arbitration_id - 0x80, bytearray([0x60]) + bytearray(msg.data[1:4]) + bytearray(4), 0.0)
    net.bus = FakeBus(on_send)
    net.lss.responses = hbus.InstantQueue()
    node = canopen.RemoteNode(7, canopen.ObjectDictionary())
    net.add_node(node)
    ev = []
    for _ in range(case["n"]):
        del frames[:]
        k = rng.choice(["sync", "time", "search", "store", "restore", "identify", "identify_nc"])
        if k == "sync":
            c = rng.choice([-1, 0, 1, 240, 255])
            net.sync.transmit(None if c < 0 else c)
            ev.append({"e": "sync", "count": c, "frames": list(frames)})
        elif k == "time":
            ts = rng.randrange(1, 2 ** 31)
            net.time.transmit(ts)
            days, secs = divmod(ts, 86400)
            ev.append({"e": "time", "ms": secs * 1000, "days": days, "frames": list(frames)})
        elif k == "search":
            lim = rng.choice([1, 5, 127])
            net.scanner.search(lim)
            ev.append({"e": "search", "limit": lim, "frames": list(frames)})
        elif k in ("store", "restore"):
            sub = rng.choice([1, 2, 3, 4, 127])
            (node.store if k == "store" else node.restore)(sub)
            ev.append({"e": k, "sub": sub, "reqs": [f["d"] for f in frames if f["id"] == 0x607]})
        elif k == "identify":
            ids = [rng.getrandbits(32) for _ in range(6)]
            net.lss.send_identify_remote_slave(*ids)
            ev.append({"e": "identify", "ids": [B(struct.pack("<I", x)) for x in ids], "frames": list(frames)})
        else:
            net.lss.send_identify_non_configured_remote_slave()
            ev.append({"e": "identify_nc", "frames": list(frames)})
    for i, e in enumerate(ev):
        e["n"] = i + 1
    return {"ev": ev}
