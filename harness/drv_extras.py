"""Driver for the behaviours beyond the listed properties (specification growth)."""
from __future__ import annotations

import struct

from harness import bus as hbus
from harness.bus import FakeBus, FakeTime
from harness.common import B


def run_case(case):
    import logging
    import queue as real_queue
    import random
    import types
    logging.disable(logging.CRITICAL)
    import canopen
    import canopen.lss as lss_mod
    import canopen.sdo.client as client_mod
    client_mod.queue = hbus.INSTANT_QUEUE_MODULE
    lss_mod.queue = types.SimpleNamespace(Queue=hbus.InstantQueue, Empty=real_queue.Empty)
    lss_mod.time = FakeTime()
    rng = random.Random(case["seed"])
    frames = []
    net = canopen.Network()

    def on_send(msg):
        frames.append({"id": msg.arbitration_id, "d": B(msg.data), "rtr": bool(msg.is_remote_frame)})
        if msg.arbitration_id == 0x609:
            eds_device(msg)
            return
        if 0x600 < msg.arbitration_id < 0x680 and len(msg.data) == 8 and msg.data[0] >> 5 == 1:
            net.notify(msg.arbitration_id - 0x80, bytearray([0x60]) + bytearray(msg.data[1:4]) + bytearray(4), 0.0)
        if msg.arbitration_id == 0x607 and len(msg.data) == 8 and msg.data[0] >> 5 == 2:
            # upload request: the device answers with the one-byte "number of entries" it holds
            dev["uploads"].append([msg.data[1] | msg.data[2] << 8, msg.data[3]])
            net.notify(0x587, bytearray([0x4F]) + bytearray(msg.data[1:4]) + bytearray([dev["n"], 0, 0, 0]), 0.0)
    dev = {"n": 0, "uploads": []}
    net.bus = FakeBus(on_send)
    net.lss.responses = hbus.InstantQueue()
    from canopen.objectdictionary import ODArray, ODRecord, ODVariable
    od = canopen.ObjectDictionary()
    arr = ODArray("Values", 0x2100)
    for sub, dt in ((0, 0x5), (1, 0x6)):
        v = ODVariable("Number of entries" if sub == 0 else "Value", 0x2100, sub)
        v.data_type = dt
        arr.add_member(v)
    od.add_object(arr)
    recsubs = case.get("recsubs", [0, 1, 2])
    rec = ODRecord("Settings", 0x2200)
    for sub in recsubs:
        v = ODVariable(f"member {sub}", 0x2200, sub)
        v.data_type = 0x5
        rec.add_member(v)
    od.add_object(rec)
    node = canopen.RemoteNode(7, od)
    net.add_node(node)
    ev = []
    EDS_TEXT = ("[1000]\nParameterName=Device type\nObjectType=0x7\nDataType=0x0007\nAccessType=ro\n"
                "[2000]\nParameterName=Speed\nObjectType=0x7\nDataType=0x0006\nAccessType=rw\nDefaultValue=$NODEID+0x200\n").encode("ascii")
    imp = {"mode": "ok", "pos": 0, "tog": 0}

    def eds_device(msg):
        # node 9 serves (or refuses, or garbles) its stored EDS in 0x1021:00, segmented, size indicated
        d = bytes(msg.data)
        text = EDS_TEXT if imp["mode"] != "garbage" else b"[1000\nParameterName\n\xff\xfe not an EDS"
        if imp["mode"] == "silent":
            return
        if d[0] == 0x40:
            if imp["mode"] == "abort":
                net.notify(0x589, bytearray([0x80]) + bytearray(d[1:4]) + bytearray(struct.pack("<L", 0x06020000)), 0.0)
                return
            imp["pos"], imp["tog"] = 0, 0
            net.notify(0x589, bytearray([0x41]) + bytearray(d[1:4]) + bytearray(struct.pack("<L", len(text))), 0.0)
        elif d[0] >> 5 == 3:
            chunk = text[imp["pos"]:imp["pos"] + 7]
            imp["pos"] += len(chunk)
            last = imp["pos"] >= len(text)
            net.notify(0x589, bytearray([imp["tog"] << 4 | (7 - len(chunk)) << 1 | int(last)]) + bytearray(chunk.ljust(7, b"\0")), 0.0)
            imp["tog"] ^= 1
    for _ in range(case["n"]):
        del frames[:]
        k = rng.choice(["sync", "time", "search", "store", "restore", "identify", "identify_nc", "arrview", "recview", "importnode"])
        if k == "importnode":
            # import_from_node: the dictionary the device describes, or None; the temporary subscription is
            # taken back in every outcome - together with everything else subscribed to that id (UnsubscribesAll)
            from canopen.objectdictionary.eds import import_from_node
            imp["mode"] = rng.choice(["ok", "ok", "abort", "silent", "garbage"])
            pre = rng.choice(["none", "user"])
            user_cb = lambda *a: None  # noqa
            net.subscribers.pop(0x589, None)
            if pre == "user":
                net.subscribe(0x589, user_cb)
            od9 = import_from_node(9, net)
            e = {"e": "importnode", "mode": imp["mode"], "pre": pre, "got": od9 is not None,
                 "indexes": sorted(od9) if od9 is not None else [], "def2000": -1 if od9 is None or 0x2000 not in od9 or od9[0x2000].default is None else od9[0x2000].default,
                 "left": len(net.subscribers.get(0x589, [])),
                 "first": [f["d"] for f in frames if f["id"] == 0x609][:1]}
            net.subscribers.pop(0x589, None)
            ev.append(e)
            continue
        if k == "arrview":
            # the array view of a remote node: length, iteration and membership follow the number of
            # entries the DEVICE reports in sub-index 0 at that moment (one upload per question)
            dev["n"] = rng.choice([0, 1, 2, 7, 254, rng.randrange(255)])
            view = node.sdo[0x2100] if rng.random() < 0.5 else node.sdo["Values"]
            e = {"e": "arrview", "cnt": dev["n"], "reads": []}
            del dev["uploads"][:]
            e["len"] = len(view)
            e["reads"].append(list(dev["uploads"]))
            del dev["uploads"][:]
            e["iter"] = [x for x in view]           # (list(view) would ask for the length as well)
            e["reads"].append(list(dev["uploads"]))
            e["contains"] = []
            for s_ in (0, 1, dev["n"], dev["n"] + 1, 255, rng.randrange(256)):
                del dev["uploads"][:]
                e["contains"].append([s_ + 1, s_ in view])        # (logged + 1: naturals for TLC)
                e["reads"].append(list(dev["uploads"]))
            ev.append(e)
            continue
        if k == "recview":
            view = node.sdo[0x2200] if rng.random() < 0.5 else node.sdo["Settings"]
            del dev["uploads"][:]
            e = {"e": "recview", "subs": list(recsubs), "len": len(view), "iter": list(view), "contains": [], "names": []}
            for s_ in (0, 1, 2, 5, 255, rng.randrange(256)):
                e["contains"].append([s_, s_ in view])
                e["names"].append([s_, f"member {s_}" in view])
            e["traffic"] = len(dev["uploads"])
            ev.append(e)
            continue
        if k == "sync":
            c = rng.choice([-1, 0, 1, 240, 255])
            net.sync.transmit(None if c < 0 else c)
            ev.append({"e": "sync", "count": c, "frames": list(frames)})
        elif k == "time":
            ts = rng.randrange(1, 2 ** 31)
            net.time.transmit(ts)
            days, secs = divmod(ts, 86400)
            ev.append({"e": "time", "ms": secs * 1000, "days": days, "frames": list(frames)})
        elif k == "search":
            lim = rng.choice([1, 5, 127])
            net.scanner.search(lim)
            ev.append({"e": "search", "limit": lim, "frames": list(frames)})
        elif k in ("store", "restore"):
            sub = rng.choice([1, 2, 3, 4, 127])
            (node.store if k == "store" else node.restore)(sub)
            ev.append({"e": k, "sub": sub, "reqs": [f["d"] for f in frames if f["id"] == 0x607]})
        elif k == "identify":
            ids = [rng.getrandbits(32) for _ in range(6)]
            net.lss.send_identify_remote_slave(*ids)
            ev.append({"e": "identify", "ids": [B(struct.pack("<I", x)) for x in ids], "frames": list(frames)})
        else:
            net.lss.send_identify_non_configured_remote_slave()
            ev.append({"e": "identify_nc", "frames": list(frames)})
    for i, e in enumerate(ev):
        e["n"] = i + 1
    return {"ev": ev}
