"""Driver for C03: real RemoteNodes (SDO clients) on one network, real LocalNodes (SDO servers) on
another, joined by a harness bus (inline / dispatcher thread with seeded delays) or by python-can's
threaded virtual bus.  Typed assignments and reads through node.sdo[...].raw; one trace per case
for Trace_Bus."""
from __future__ import annotations

import os
import queue as real_queue
import random
import threading
import time

from harness import enc
from harness.common import B
from harness.tv import tv

TYPES = sorted(enc.INT) + [enc.BOOLEAN, enc.REAL32, enc.REAL64, enc.VSTR, enc.OSTR, enc.USTR, enc.DOMAIN]
REC_IDX, ARR_IDX, DOT_IDX = 0x3000, 0x3100, 0x3200


def var_idx(dt):
    return 0x2000 + dt


def build_od():
    import canopen
    from canopen.objectdictionary import ODArray, ODRecord, ODVariable
    od = canopen.ObjectDictionary()
    header = []

    def add(container, name, idx, sub, dt):
        v = ODVariable(name, idx, sub)
        v.data_type = dt
        # the three read/write access types of CiA 306 ("rwr" / "rww": read/write, mappable into a TPDO / RPDO)
        acc = ("rw", "rwr", "rww")[(idx + sub) % 3]
        v.access_type = acc
        if container is None:
            od.add_object(v)
        else:
            container.add_member(v)
        header.append({"idx": idx, "sub": sub, "num": dt in enc.NUM_SIZE and dt != enc.BOOLEAN,
                       "size": enc.NUM_SIZE.get(dt, 0), "acc": acc, "def": [-1], "val": [-1],
                       "rcb": [-1]})
    for dt in TYPES:
        add(None, f"Var{dt:02X}", var_idx(dt), 0, dt)
    add(None, "Max. speed", DOT_IDX, 0, 0x6)          # a name with a dot is not a 'Record.Member' path
    rec = ODRecord("Rec", REC_IDX)
    od.add_object(rec)
    add(rec, "Count", REC_IDX, 0, 0x5)
    for i, dt in enumerate(TYPES):
        add(rec, f"M_{dt:02X}", REC_IDX, i + 1, dt)
    arr = ODArray("Arr", ARR_IDX)
    od.add_object(arr)
    add(arr, "N", ARR_IDX, 0, 0x5)
    for i in range(1, 4):
        add(arr, f"A{i}", ARR_IDX, i, 0x6)
    return od, header


def pyval(v):
    if "int" in v:
        return v["int"]
    if "hex" in v:
        return float.fromhex(v["hex"])
    if "str" in v:
        return v["str"]
    if "bool" in v:
        return v["bool"]
    return bytes(v["bytes"])


def accessor(sdo, op):
    idx, sub, how = op["idx"], op["sub"], op["how"]
    if idx == REC_IDX:
        name = f"M_{TYPES[sub - 1]:02X}" if sub else "Count"
        if how == "index":
            return sdo[idx][sub]
        if how == "name":
            return sdo["Rec"][name]
        return sdo["Rec." + name]
    if idx == ARR_IDX:
        if how == "index":
            return sdo[idx][sub]
        return sdo["Arr"][sub] if how == "name" else sdo[f"Arr.A{sub}"]
    if idx == DOT_IDX:
        return sdo[idx] if how == "index" else sdo["Max. speed"]
    if how == "index":
        return sdo[idx]
    return sdo[f"Var{idx - 0x2000:02X}"]


class Recorder:
    def __init__(self):
        self.lock = threading.Lock()
        self.ev = []

    def add(self, e):
        with self.lock:
            e["n"] = len(self.ev) + 1
            self.ev.append(e)


class LinkBus:
    """FakeBus variant whose send() records the frame and forwards it to the peer network."""
    channel_info = "verif-link"

    def __init__(self, rec, side, forward, slow=0.0):
        self.rec, self.side, self.forward, self.slow = rec, side, forward, slow

    def send(self, msg, timeout=None):
        if self.slow:
            time.sleep(self.slow)       # a driver that takes its time: other senders queue up meanwhile
        cid, data = msg.arbitration_id, bytes(msg.data)
        if self.side == "master" and 0x600 < cid < 0x680:
            self.rec.add({"e": "q", "node": cid - 0x600, "d": B(data)})
        elif self.side == "slave" and 0x580 < cid < 0x600:
            self.rec.add({"e": "r", "node": cid - 0x580, "d": B(data)})
        else:
            self.rec.add({"e": "noise", "id": cid, "d": B(data)})
        self.forward(cid, data)

    def send_periodic(self, *a, **k):
        raise RuntimeError("no periodic traffic in this driver")

    def shutdown(self):
        pass


def run_case(case: dict) -> dict:
    import logging
    logging.disable(logging.CRITICAL)
    import canopen
    import canopen.sdo.client as client_mod
    client_mod.queue = real_queue
    rng = random.Random(case.get("seed", 0))
    mode = case["mode"]
    rec = Recorder()
    od, header = build_od()
    nodes = case["nodes"]
    net1, net2 = canopen.Network(), canopen.Network()
    stop = threading.Event()
    threads = []
    machinery = []

    if mode == "virtual":
        chan = f"verif-{os.getpid()}-{case.get('seed', 0)}-{time.time_ns()}"
        net1.NOTIFIER_SHUTDOWN_TIMEOUT = net2.NOTIFIER_SHUTDOWN_TIMEOUT = 0.0
        net1.connect(interface="virtual", channel=chan, receive_own_messages=False)
        net2.connect(interface="virtual", channel=chan, receive_own_messages=False)
        for net, side in ((net1, "master"), (net2, "slave")):
            orig = net.bus.send

            def send(msg, timeout=None, _orig=orig, _side=side):
                cid, data = msg.arbitration_id, bytes(msg.data)
                if _side == "master" and 0x600 < cid < 0x680:
                    rec.add({"e": "q", "node": cid - 0x600, "d": B(data)})
                elif _side == "slave" and 0x580 < cid < 0x600:
                    rec.add({"e": "r", "node": cid - 0x580, "d": B(data)})
                else:
                    rec.add({"e": "noise", "id": cid, "d": B(data)})
                _orig(msg, timeout)
            net.bus.send = send
    elif mode == "inline":
        net1.bus = LinkBus(rec, "master", lambda cid, d: net2.notify(cid, bytearray(d), 0.0))
        net2.bus = LinkBus(rec, "slave", lambda cid, d: net1.notify(cid, bytearray(d), 0.0))
    else:  # deferred: a dispatcher thread delivers with seeded delays
        dq = real_queue.Queue()
        slow = 0.0004 if case.get("slow_send") else 0.0
        net1.bus = LinkBus(rec, "master", lambda cid, d: dq.put((net2, cid, d)), slow)
        net2.bus = LinkBus(rec, "slave", lambda cid, d: dq.put((net1, cid, d)), slow)
        drng = random.Random(rng.randrange(1 << 30))

        def dispatcher():
            while not stop.is_set():
                try:
                    net, cid, d = dq.get(timeout=0.05)
                except real_queue.Empty:
                    continue
                delay = drng.choice([0, 0, 0, 0.0002, 0.001])
                if delay:
                    time.sleep(delay)
                try:
                    net.notify(cid, bytearray(d), time.time())
                except Exception as exc:  # noqa
                    machinery.append(f"dispatcher: {exc!r}")
        th = threading.Thread(target=dispatcher, daemon=True)
        th.start()
        threads.append(th)

    rnodes, lnodes = {}, {}
    for n in nodes:
        rn = canopen.RemoteNode(n, od)
        rn.sdo.RESPONSE_TIMEOUT = 15.0
        net1.add_node(rn)
        rnodes[n] = rn
        ln = canopen.LocalNode(n, od)
        net2.add_node(ln)
        lnodes[n] = ln
        if case.get("slow_store") and mode != "inline":
            # the application behind the local node takes its time to accept a written value
            ln.add_write_callback(lambda **kw: time.sleep(0.02))

    noise_ids = [0x123, 0x3FF, 0x77F, 0x10000, 0x600 + 120, 0x580 + 121]
    # 29-bit identifiers of another protocol whose low 11 bits equal an SDO COB-ID in use
    collide = [0x1ABCD600 + n for n in nodes] + [0x18FF0580 + n for n in nodes]
    u32 = var_idx(0x7)

    def noise_once(r):
        if r.random() < 0.4:
            cid = r.choice(collide)
            if cid & 0x780 == 0x600:      # would parse as an expedited download of 0xDEADBEEF
                d = bytes([0x23, u32 & 0xFF, u32 >> 8, 0, 0xEF, 0xBE, 0xAD, 0xDE])
            else:                          # would parse as an expedited upload response
                d = bytes([0x43, u32 & 0xFF, u32 >> 8, 0, 0xEF, 0xBE, 0xAD, 0xDE])
        else:
            cid = r.choice(noise_ids)
            d = bytes(r.randrange(256) for _ in range(r.randrange(0, 9)))
        rec.add({"e": "noise", "id": cid, "d": B(d)})
        for net in (net1, net2):
            try:
                net.notify(cid, bytearray(d), 0.0)
            except Exception as exc:  # noqa: unrelated traffic must not raise into the receive path
                rec.add({"e": "noise_raise", "id": cid, "repr": repr(exc)[:120]})

    if case.get("noise") and mode != "inline":
        nrng = random.Random(rng.randrange(1 << 30))

        def noiser():
            while not stop.is_set():
                noise_once(nrng)
                time.sleep(0.0005)
        th = threading.Thread(target=noiser, daemon=True)
        th.start()
        threads.append(th)

    def worker(n, ops, wrng):
        rn, ln = rnodes[n], lnodes[n]
        for op in ops:
            if case.get("noise") and mode == "inline" and wrng.random() < 0.5:
                noise_once(wrng)
            try:
                if op["op"] == "set":
                    val = pyval(op["v"])
                    rec.add({"e": "call", "node": n, "op": "set", "idx": op["idx"], "sub": op["sub"],
                             "t": op["t"], "v": tv(val)})
                    accessor(rn.sdo, op).raw = val
                    rec.add({"e": "ret", "node": n, "v": {"k": "none"}})
                elif op["op"] == "get":
                    rec.add({"e": "call", "node": n, "op": "get", "idx": op["idx"], "sub": op["sub"],
                             "t": op["t"], "v": {"k": "none"}})
                    got = accessor(rn.sdo, op).raw
                    rec.add({"e": "ret", "node": n, "v": tv(got)})
                else:  # local read on the serving side
                    got = accessor(ln.sdo, op).raw
                    raw = ln.data_store.get(op["idx"], {}).get(op["sub"])
                    rec.add({"e": "local", "node": n, "idx": op["idx"], "sub": op["sub"], "t": op["t"],
                             "b": B(raw) if raw is not None else [-1], "v": tv(got)})
            except Exception as exc:  # noqa
                rec.add({"e": "raise", "node": n, "repr": f"{type(exc).__name__}: {exc}"[:200]})
                if mode != "inline" and "No SDO response" in str(exc):
                    machinery.append(f"time-out under load: {exc!r}")
                return

    ws = []
    for n in nodes:
        wrng = random.Random(rng.randrange(1 << 30))
        if mode == "inline":
            worker(n, case["ops"][str(n)], wrng)
        else:
            th = threading.Thread(target=worker, args=(n, case["ops"][str(n)], wrng), daemon=True)
            ws.append(th)
    if mode == "inline" and case.get("interleave"):
        pass
    for th in ws:
        th.start()
    for th in ws:
        th.join(60)
        if th.is_alive():
            machinery.append("client thread did not finish")
    stop.set()
    for th in threads:
        th.join(2)
    if mode == "virtual":
        try:
            net1.disconnect()
            net2.disconnect()
        except Exception:  # noqa
            pass
    return {"ev": rec.ev, "od": header, "maxnode": max(nodes), "machinery": machinery}
