"""Driver for C16: EmcyConsumer of a RemoteNode fed with frames (directly and through the EmcyProducer
of a LocalNode on a joined network); complete log / active projection after every step."""
from __future__ import annotations

import threading
import time

from harness.common import B
from harness.drv_nmt import Link


def _ts(x):
    """timestamps are small integers in the generated frames; anything else is logged as -7777"""
    try:
        return int(x) if float(x).is_integer() and abs(x) < (1 << 31) else -7777
    except Exception:  # noqa
        return -7777


def run_case(case: dict) -> dict:
    import logging
    logging.disable(logging.CRITICAL)
    import canopen
    nid = case["nid"]
    od = canopen.ObjectDictionary()
    frames = []
    clock = {"ts": 0}
    net1, net2 = canopen.Network(), canopen.Network()
    net1.bus = Link("master", frames, lambda cid, d: net2.notify(cid, bytearray(d), clock["ts"]))
    net2.bus = Link("slave", frames, lambda cid, d: net1.notify(cid, bytearray(d), clock["ts"]))
    rnode = canopen.RemoteNode(nid, od)
    lnode = canopen.LocalNode(nid, od)
    net1.add_node(rnode)
    net2.add_node(lnode)
    cons = rnode.emcy
    calls = []
    for k in range(1, case.get("ncb", 2) + 1):
        cons.add_callback(lambda e, _k=k: calls.append([_k, e.code, e.register, B(e.data), _ts(e.timestamp)]))
    # a second consumer in the same process (another node of the network) with its own callback
    by = canopen.RemoteNode(nid % 127 + 1, od)
    net1.add_node(by)
    by.emcy.add_callback(lambda e: calls.append([99, e.code, e.register, B(e.data), _ts(e.timestamp)]))
    ev = []

    def proj(lst):
        return [[e.code, e.register, B(e.data), _ts(e.timestamp)] for e in lst]

    def log(e, raised=False):
        e["raised"] = raised
        e["log"] = proj(cons.log)
        e["active"] = proj(cons.active)
        ev.append(e)

    for op in case["ops"]:
        o = op["op"]
        raised = False
        if o == "frame":
            del calls[:]
            try:
                net1.notify(0x80 + nid, bytearray(op["d"]), op["ts"])
            except Exception:  # noqa
                raised = True
            log({"e": "frame", "d": list(op["d"]), "ts": op["ts"], "cbs": [list(c) for c in calls]}, raised)
        elif o == "bframe":      # a frame of the other node: nothing of this consumer may change
            del calls[:]
            try:
                net1.notify(0x80 + nid % 127 + 1, bytearray(op["d"]), op["ts"])
            except Exception:  # noqa
                raised = True
            log({"e": "bframe", "d": list(op["d"]), "ts": op["ts"], "cbs": [list(c) for c in calls],
                 "blog": len(by.emcy.log)}, raised)
        elif o == "reset":
            cons.reset()
            log({"e": "reset"})
        elif o == "prod":
            del frames[:]
            clock["ts"] = op["ts"]
            try:
                if op["kind"] == "reset":
                    lnode.emcy.reset(op["reg"], bytes(op["data"]))
                else:
                    lnode.emcy.send(op["code"], op["reg"], bytes(op["data"]))
            except Exception:  # noqa
                raised = True
            log({"e": "prod", "kind": op["kind"], "code": op.get("code", 0), "reg": op["reg"], "data": list(op["data"]),
                 "ts": op["ts"], "tx": [{"id": f["id"], "d": f["d"]} for f in frames]}, raised)
        elif o == "wait":
            # one caller, or two callers waiting at the same time (each with its own filter)
            filters = [op["filter"]] + ([op["filter2"]] if op.get("filter2") is not None else [])
            res = [{} for _ in filters]

            def waiter(k):
                try:
                    r = cons.wait(None if filters[k] < 0 else filters[k], timeout=op["timeout"])
                    res[k]["r"] = [] if r is None else [r.code, r.register, B(r.data), _ts(r.timestamp)]
                except Exception as exc:  # noqa
                    res[k]["r"] = ["exc", repr(exc)]
            import canopen.emcy as emcy_mod
            from harness.bus import FakeTime
            vclock = emcy_mod.time = FakeTime()          # the deadline is taken on a virtual clock
            ths = [threading.Thread(target=waiter, args=(k,), daemon=True) for k in range(len(filters))]
            for th in ths:
                th.start()

            def alive():
                return sum(1 for th in ths if th.is_alive())

            def parked():
                return len(cons.emcy_received._waiters)
            fed = []
            for item in op["feed"]:
                d, ts = item[0], item[1]
                late = len(item) > 2 and item[2]
                t0 = time.time()
                while parked() < alive() and time.time() - t0 < 5:      # every caller still waiting is parked
                    time.sleep(0.0005)
                if not alive():
                    break
                if late:        # this frame arrives after the callers' time-out has expired
                    vclock.now += op["timeout"] + 1.0
                net1.notify(0x80 + nid, bytearray(d), ts)
                fed.append([list(d), ts, 1 if late else 0])
                t0 = time.time()
                while parked() and alive() and time.time() - t0 < 0.05:
                    time.sleep(0.0005)
            if len(ths) > 1:
                # callers that were woken have returned or are parked again; one that is still parked on the
                # condition it was parked on before the last frame was never woken: its time runs out
                t0 = time.time()
                while alive() > parked() and time.time() - t0 < 5:
                    time.sleep(0.0005)
                if alive() and fed:
                    vclock.now += op["timeout"] + 1.0
            for th in ths:
                th.join(10)
            log({"e": "wait", "filter": filters[0], "fed": fed, "result": res[0].get("r", ["hang"]),
                 "filter2": filters[1] if len(filters) > 1 else -2,
                 "result2": res[1].get("r", ["hang"]) if len(filters) > 1 else []})
    for i, e in enumerate(ev):
        e["n"] = i + 1
    return {"ev": ev, "nid": nid, "ncb": case.get("ncb", 2)}


def desc_table(_case=None):
    from canopen.emcy import EmcyError
    return [{"code": c, "desc": EmcyError(c, 0, b"", 0).get_desc()} for c in range(65536)]
