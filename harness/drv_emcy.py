"""Driver for C16: EmcyConsumer of a RemoteNode fed with frames (directly and through the EmcyProducer
of a LocalNode on a joined network); complete log / active projection after every step."""
from __future__ import annotations

import threading
import time

from harness.common import B
from harness.drv_nmt import Link


def _ts(x):
    """timestamps are small integers in the generated frames; anything else is logged as -7777"""
    try:
        return int(x) if float(x).is_integer() and abs(x) < (1 << 31) else -7777
    except Exception:  # noqa
        return -7777


def run_case(case: dict) -> dict:
    import logging
    logging.disable(logging.CRITICAL)
    import canopen
    nid = case["nid"]
    od = canopen.ObjectDictionary()
    frames = []
    clock = {"ts": 0}
    net1, net2 = canopen.Network(), canopen.Network()
    net1.bus = Link("master", frames, lambda cid, d: net2.notify(cid, bytearray(d), clock["ts"]))
    net2.bus = Link("slave", frames, lambda cid, d: net1.notify(cid, bytearray(d), clock["ts"]))
    rnode = canopen.RemoteNode(nid, od)
    lnode = canopen.LocalNode(nid, od)
    net1.add_node(rnode)
    net2.add_node(lnode)
    cons = rnode.emcy
    calls = []
    for k in range(1, case.get("ncb", 2) + 1):
        cons.add_callback(lambda e, _k=k: calls.append([_k, e.code, e.register, B(e.data), _ts(e.timestamp)]))
    # a second consumer in the same process (another node of the network) with its own callback
    by = canopen.RemoteNode(nid % 127 + 1, od)
    net1.add_node(by)
    by.emcy.add_callback(lambda e: calls.append([99, e.code, e.register, B(e.data), _ts(e.timestamp)]))
    ev = []

    def proj(lst):
        return [[e.code, e.register, B(e.data), _ts(e.timestamp)] for e in lst]

    def log(e, raised=False):
        e["raised"] = raised
        e["log"] = proj(cons.log)
        e["active"] = proj(cons.active)
        ev.append(e)

    for op in case["ops"]:
        o = op["op"]
        raised = False
        if o == "frame":
            del calls[:]
            try:
                net1.notify(0x80 + nid, bytearray(op["d"]), op["ts"])
            except Exception:  # noqa
                raised = True
            log({"e": "frame", "d": list(op["d"]), "ts": op["ts"], "cbs": [list(c) for c in calls]}, raised)
        elif o == "bframe":      # a frame of the other node: nothing of this consumer may change
            del calls[:]
            try:
                net1.notify(0x80 + nid % 127 + 1, bytearray(op["d"]), op["ts"])
            except Exception:  # noqa
                raised = True
            log({"e": "bframe", "d": list(op["d"]), "ts": op["ts"], "cbs": [list(c) for c in calls],
                 "blog": len(by.emcy.log)}, raised)
        elif o == "reset":
            cons.reset()
            log({"e": "reset"})
        elif o == "prod":
            del frames[:]
            clock["ts"] = op["ts"]
            try:
                if op["kind"] == "reset":
                    lnode.emcy.reset(op["reg"], bytes(op["data"]))
                else:
                    lnode.emcy.send(op["code"], op["reg"], bytes(op["data"]))
            except Exception:  # noqa
                raised = True
            log({"e": "prod", "kind": op["kind"], "code": op.get("code", 0), "reg": op["reg"], "data": list(op["data"]),
                 "ts": op["ts"], "tx": [{"id": f["id"], "d": f["d"]} for f in frames]}, raised)
        elif o == "wait":
            res = {}

            def waiter():
                try:
                    r = cons.wait(None if op["filter"] < 0 else op["filter"], timeout=op["timeout"])
                    res["r"] = [] if r is None else [r.code, r.register, B(r.data), _ts(r.timestamp)]
                except Exception as exc:  # noqa
                    res["r"] = ["exc", repr(exc)]
            import canopen.emcy as emcy_mod
            from harness.bus import FakeTime
            vclock = emcy_mod.time = FakeTime()          # the deadline is taken on a virtual clock
            th = threading.Thread(target=waiter, daemon=True)
            th.start()
            fed = []
            for item in op["feed"]:
                d, ts = item[0], item[1]
                late = len(item) > 2 and item[2]
                t0 = time.time()
                while not cons.emcy_received._waiters and th.is_alive() and time.time() - t0 < 5:
                    time.sleep(0.0005)
                if not th.is_alive():
                    break
                if late:        # this frame arrives after the caller's time-out has expired
                    vclock.now += op["timeout"] + 1.0
                net1.notify(0x80 + nid, bytearray(d), ts)
                fed.append([list(d), ts, 1 if late else 0])
                t0 = time.time()
                while cons.emcy_received._waiters and th.is_alive() and time.time() - t0 < 0.05:
                    time.sleep(0.0005)
            th.join(10)
            log({"e": "wait", "filter": op["filter"], "fed": fed, "result": res.get("r", ["hang"])})
    for i, e in enumerate(ev):
        e["n"] = i + 1
    return {"ev": ev, "nid": nid, "ncb": case.get("ncb", 2)}


def desc_table(_case=None):
    from canopen.emcy import EmcyError
    return [{"code": c, "desc": EmcyError(c, 0, b"", 0).get_desc()} for c in range(65536)]
