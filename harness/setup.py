"""MANIFEST.setup_cmd: parse every specification module with SANY and self-test the trace pipeline
(a corrupted trace must be rejected, the original accepted)."""
import copy
import glob
import os
import sys

from harness import tlc


def main():
    mods = sorted(os.path.basename(p)[:-4] for p in glob.glob(os.path.join(tlc.SPEC_DIR, "*.tla")))
    for m in mods:
        if m == "TraceBase":
            continue
        tlc.sany(m)
    print(f"SANY ok: {len(mods)} modules")
    from harness import drv_sdo_client as d
    nv = [-1]
    od = [dict(idx=0x2000, sub=0, num=False, size=0, acc="rw", **{"def": nv}, val=nv, rcb=nv)]
    case = dict(cod=[], od=od, calls=[dict(api="download", idx=0x2000, sub=0, data=list(range(1, 31))),
                                       dict(api="upload", idx=0x2000, sub=0)])
    tr = d.run_case(case)
    bad1 = copy.deepcopy(tr)
    bad1["ev"][3]["q"][2] ^= 1            # flip one payload bit
    bad2 = copy.deepcopy(tr)
    del bad2["ev"][2]                      # drop one exchange
    bad3 = copy.deepcopy(tr)
    bad3["ev"][-1]["data"][7] ^= 0x10     # returned data differs
    v = tlc.validate_traces("Trace_SdoClient", [tr, bad1, bad2, bad3], cfg="Trace.cfg", jobs=1)
    got = sorted(r.index for r in v.rejects)
    if got != [1, 2, 3]:
        print("trace pipeline self-test FAILED:", got)
        return 2
    print("trace pipeline self-test ok (3 corrupted traces rejected, original accepted)")
    return 0


if __name__ == "__main__":
    sys.exit(main())
