"""Driver for the dictionary container (specification growth, OdDict.tla): random operation sequences
on a real canopen.ObjectDictionary, every call logged with its outcome."""
from __future__ import annotations


def run_members(case):
    """the same operations one level down: a free-standing ODRecord / ODArray and its members"""
    import random
    from canopen.objectdictionary import ODArray, ODRecord, ODVariable
    rng = random.Random(case["seed"])
    scope = case["scope"]
    box = (ODRecord if scope == "rec" else ODArray)("Box", 0x2000)
    subs = case.get("subs") or [0, 1, 2, 3, 255]
    names = case.get("names") or ["alpha", "beta", "gamma", "delta"]
    ids, keep, ev, nid = {}, [], [], [0]

    def key():
        if rng.random() < 0.6:
            v = rng.choice(subs + [4, 16, 200, 256, 300])
            return {"k": "i", "v": v}, v
        v = rng.choice(names + ["nothing"])
        return {"k": "s", "v": v}, v
    ops = ["add", "add", "get", "get", "contains", "len", "iter"] + (["del", "del"] if scope == "rec" else [])
    for _ in range(case["n"]):
        op = rng.choice(ops)
        if op == "add":
            nid[0] += 1
            sub, name = rng.choice(subs), rng.choice(names)
            v = ODVariable(name, 0x2000, sub)
            v.data_type = 0x5
            ids[id(v)] = nid[0]
            keep.append(v)
            if scope == "rec" and rng.random() < 0.4:
                box[sub] = v
            else:
                box.add_member(v)
            assert v.parent is box
            ev.append({"e": "add", "obj": {"id": nid[0], "index": sub, "name": name, "kind": "var", "subs": []}})
        elif op == "del":
            k, v = key()
            try:
                del box[v]
                res = "ok"
            except KeyError:
                res = "KeyError"
            ev.append({"e": "del", "key": k, "res": res})
        elif op == "get":
            k, v = key()
            e = {"e": "get", "key": k, "id": -1, "name": ""}
            try:
                o = box[v]
                e["res"], e["id"], e["name"] = "ok", ids.get(id(o), -2), o.name
                if e["id"] == -2 and (o.subindex != v or o.index != 0x2000 or o.parent is not box or o.data_type != 0x5):
                    e["name"] = "derived member with the wrong address / parent / type"
            except KeyError:
                e["res"] = "KeyError"
            ev.append(e)
        elif op == "contains":
            k, v = key()
            ev.append({"e": "contains", "key": k, "res": v in box})
        elif op == "len":
            ev.append({"e": "len", "res": len(box)})
        else:
            ev.append({"e": "iter", "res": list(box)})
    for i, e in enumerate(ev):
        e["n"] = i + 1
    return {"ev": ev, "scope": scope}


def run_case(case):
    import random
    import canopen
    from canopen.objectdictionary import ODArray, ODRecord, ODVariable
    rng = random.Random(case["seed"])
    disciplined = case.get("disciplined", False)
    od = canopen.ObjectDictionary()
    idxs = case.get("indexes") or [0x1000, 0x1018, 0x2000, 0x2001, 0x6040]
    names = case.get("names") or ["alpha", "beta", "gamma", "delta", "Device type"]
    ids = {}            # id(object) -> logged id
    keep = []           # keep every object alive (id() values must stay unique)
    ev = []
    nid = [0]

    def key():
        if rng.random() < 0.5:
            v = rng.choice(idxs + [0x7000])
            return {"k": "i", "v": v}, v
        v = rng.choice(names + ["nothing"])
        return {"k": "s", "v": v}, v

    def make():
        nid[0] += 1
        kind = rng.choice(["var", "rec", "arr"])
        if disciplined:
            j = rng.randrange(len(idxs))
            index, name = idxs[j], names[j]
        else:
            index, name = rng.choice(idxs), rng.choice(names)
        subs = []
        if kind == "var":
            o = ODVariable(name, index, 0)
        else:
            o = (ODRecord if kind == "rec" else ODArray)(name, index)
            subs = sorted(rng.choice([[], [0], [0, 1], [0, 1, 2], [1, 5], [0, 2, 3], [0, 1, 2, 3, 255]]))
            for s in subs:
                m = ODVariable(f"m{s}", index, s)
                m.data_type = 0x5
                o.add_member(m)
        ids[id(o)] = nid[0]
        keep.append(o)
        return o, {"id": nid[0], "index": index, "name": name, "kind": kind, "subs": subs}

    def owner_id(v):
        p = v.parent
        return ids.get(id(p if isinstance(p, (ODRecord, ODArray)) else v), -1)

    for _ in range(case["n"]):
        op = rng.choice(["add", "add", "add", "del", "get", "get", "dotted", "contains", "len", "iter", "getvar", "getvar"])
        if op == "add":
            o, rec = make()
            how = rng.choice(["add_object", "set_index", "set_name"])
            if how == "add_object":
                od.add_object(o)
            elif how == "set_index":
                od[o.index] = o
            else:
                od[o.name] = o
            assert o.parent is od
            ev.append({"e": "add", "how": how, "obj": rec})
        elif op == "del":
            k, v = key()
            try:
                del od[v]
                res = "ok"
            except KeyError:
                res = "KeyError"
            ev.append({"e": "del", "key": k, "res": res})
        elif op == "get":
            k, v = key()
            e = {"e": "get", "key": k, "id": -1}
            try:
                o = od[v]
                e["res"], e["id"] = "ok", ids.get(id(o), -1)
            except KeyError:
                e["res"] = "KeyError"
            ev.append(e)
        elif op == "dotted":
            parent, sub = rng.choice(names + ["nothing"]), rng.choice([0, 1, 2, 3, 5, 9, 255])
            e = {"e": "dotted", "parent": parent, "sub": sub, "id": -1, "rsub": -1}
            try:
                v = od[f"{parent}.m{sub}"]
                e["res"], e["id"], e["rsub"] = "ok", owner_id(v), v.subindex
            except KeyError:
                e["res"] = "KeyError"
            except TypeError:
                e["res"] = "TypeError"
            ev.append(e)
        elif op == "contains":
            k, v = key()
            ev.append({"e": "contains", "key": k, "res": v in od})
        elif op == "len":
            ev.append({"e": "len", "res": len(od)})
        elif op == "iter":
            ev.append({"e": "iter", "res": list(od)})
        else:
            k, v = key()
            sub = rng.choice([0, 0, 1, 2, 3, 4, 5, 15, 16, 200, 255, 256, 300])
            var = od.get_variable(v, sub) if (sub or rng.random() < 0.5) else od.get_variable(v)
            e = {"e": "getvar", "key": k, "sub": sub, "id": -1, "rsub": -1, "name": ""}
            if var is None:
                e["res"] = "none"
            else:
                e["res"], e["id"], e["rsub"], e["name"] = "ok", owner_id(var), var.subindex, var.name
            ev.append(e)
    for i, e in enumerate(ev):
        e["n"] = i + 1
    return {"ev": ev, "scope": "od"}
