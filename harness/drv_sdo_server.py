"""Driver: a scripted (reactive, untrusted) SDO client against the real LocalNode / SdoServer.
Produces one trace per case for Trace_SdoServer (C02, server side of C06).

The requests are inputs -- any frame sequence is a legal input for a server -- so the scripted
client needs no validation; every response of the real server is judged by SdoCore.SrvJudge."""
from __future__ import annotations

import struct

from harness import enc
from harness.bus import FakeBus
from harness.common import B

NODE = 5
NV = [-1]


def _val(x):
    if isinstance(x, dict) and "bytes" in x:
        return bytes(x["bytes"])
    return x


def build_node(objs, ncb, nrcb=1):
    import canopen
    from canopen.objectdictionary import ODArray, ODRecord, ODVariable
    od = canopen.ObjectDictionary()
    header = []
    rcb = {}
    for o in objs:
        if o["kind"] == "var":
            m = o["members"][0]
            v = ODVariable(o["name"], o["idx"], 0)
            parent = None
            members = [(m, v)]
            od.add_object(v)
        else:
            parent = (ODRecord if o["kind"] == "rec" else ODArray)(o["name"], o["idx"])
            members = []
            for m in o["members"]:
                v = ODVariable(f"{o['name']}_{m['sub']}", o["idx"], m["sub"])
                if not m.get("virtual"):        # (served on demand from member 1: not in the dictionary)
                    parent.add_member(v)
                members.append((m, v))
            od.add_object(parent)
        for m, v in members:
            v.data_type = m["dt"]
            v.access_type = m["acc"]
            if m.get("default") is not None:
                v.default = _val(m["default"])
            if m.get("value") is not None:
                v.value = _val(m["value"])
            if m.get("rcb") is not None:
                rcb[(v.index, v.subindex)] = _val(m["rcb"])

            def src(x):
                return NV if x is None else B(enc.encode(m["dt"], _val(x)))
            # length-checked on download: integer and floating-point entries (C06); BOOLEAN is not
            header.append({"idx": v.index, "sub": v.subindex,
                           "num": m["dt"] in enc.NUM_SIZE and m["dt"] != enc.BOOLEAN,
                           "size": enc.NUM_SIZE.get(m["dt"], 0), "acc": m["acc"],
                           "def": src(m.get("default")), "val": src(m.get("value")),
                           "rcb": src(m.get("rcb"))})
    node = canopen.LocalNode(NODE, od)
    wlog = []
    if rcb:
        # the entries with a read callback are spread over nrcb callbacks (the first callback that returns a
        # value decides; the others return None for an entry that is not theirs)
        for j in range(max(1, nrcb)):
            def on_read(index, subindex, od, _j=j, **kw):
                if (index + subindex) % max(1, nrcb) != _j:
                    return None
                return rcb.get((index, subindex))
            node.add_read_callback(on_read)
    for i in range(ncb):
        def on_write(index, subindex, od, data, _i=i, **kw):
            wlog.append([index, subindex, B(data)])
        node.add_write_callback(on_write)
    return node, header, wlog


def snapshot(node):
    return {(i, s): bytes(d) for i, subs in node.data_store.items() for s, d in subs.items()}


class Feeder:
    """Feeds request frames into the node and records one event per request."""

    def __init__(self, case):
        import canopen
        self.ev = []
        self.out = []
        self.bus = FakeBus(self._on_send)
        self.net = canopen.Network()
        self.net.bus = self.bus
        self.node, self.header, self.wlog = build_node(case["objs"], case.get("ncb", 1), case.get("nrcb", 1))
        self.net.add_node(self.node)
        self.snap = snapshot(self.node)

    def _on_send(self, msg):
        if msg.arbitration_id == 0x580 + NODE:
            self.out.append(bytes(msg.data))
        # other traffic (heartbeat etc.) is not part of this trace

    def send(self, q: bytes):
        self.out = []
        del self.wlog[:]
        exc = 0
        try:
            self.net.notify(0x600 + NODE, bytearray(q), 0.0)
        except Exception as e:  # noqa
            exc = 1
            self.last_exc = repr(e)
        snap = snapshot(self.node)
        chg = [[k[0], k[1], B(v)] for k, v in sorted(snap.items()) if self.snap.get(k) != v]
        gone = [k for k in self.snap if k not in snap]
        self.snap = snap
        e = {"e": "rq", "q": B(q), "r": [B(f) for f in self.out], "exc": exc,
             "wcb": list(self.wlog), "chg": chg}
        if gone:
            e["chg"] = e["chg"] + [[k[0], k[1], [-2]] for k in gone]
        if exc:
            e["repr"] = self.last_exc[:200]
        self.ev.append(e)
        return list(self.out)


def run_script(fd: Feeder, script, rng):
    for it in script:
        k = it["k"]
        if k == "raw":
            fd.send(bytes(it["d"]))
        elif k == "ul":
            cmd = 0xA0 if it.get("block") else 0x40
            r = fd.send(struct.pack("<BHB", cmd, it["idx"], it["sub"]) + bytes(it.get("tail", [0, 0, 0, 0])))
            if len(r) != 1 or len(r[0]) != 8 or r[0][0] >> 5 != 2 or r[0][0] & 2:
                continue
            tog, n = 0, 0
            while n < it.get("max_segs", 3000):
                t = tog
                if it.get("bad_toggle_at") == n:
                    t ^= 1
                if it.get("stop_after") == n:
                    break
                r = fd.send(bytes([0x60 | t << 4]) + bytes(it.get("segtail", [0] * 7)))
                n += 1
                if len(r) != 1 or len(r[0]) != 8 or r[0][0] >> 5 != 0 or r[0][0] & 1:
                    break
                tog ^= 1
        elif k == "dl":
            data = bytes(it["data"])
            idx, sub = it["idx"], it["sub"]
            if it["mode"] == "exp":
                if it.get("sized", True):
                    cmd = 0x23 | (4 - len(data)) << 2
                else:
                    cmd = 0x22
                fd.send(struct.pack("<BHB", cmd, idx, sub) + data.ljust(4, bytes([it.get("padval", 0)])))
                continue
            if it.get("sized", True):
                q = struct.pack("<BHBL", 0x21, idx, sub, it.get("declared", len(data)))
            else:
                q = struct.pack("<BHBL", 0x20, idx, sub, 0)
            r = fd.send(q)
            if len(r) != 1 or r[0][0] != 0x60:
                continue
            pos, tog, n = 0, 0, 0
            chunks = list(it.get("chunks") or [])
            while True:
                ksz = chunks.pop(0) if chunks else 7
                ksz = min(ksz, len(data) - pos)
                seg = data[pos:pos + ksz]
                pos += ksz
                last = pos >= len(data)
                t = tog ^ (1 if it.get("bad_toggle_at") == n else 0)
                if it.get("stop_after") == n:
                    break
                frame = bytes([t << 4 | (7 - ksz) << 1 | (1 if last else 0)]) + seg.ljust(7, bytes([it.get("padval", 0)]))
                r = fd.send(frame)
                n += 1
                if last or len(r) != 1 or r[0][0] >> 5 != 1:
                    break
                if it.get("repeat_at") == n - 1:
                    # the segment just confirmed once more, byte for byte (its toggle bit is now the wrong one)
                    fd.send(frame)
                    break
                tog ^= 1
        else:
            raise ValueError(k)


def run_case(case: dict) -> dict:
    import logging
    import random
    logging.disable(logging.CRITICAL)
    rng = random.Random(case.get("seed", 0))
    fd = Feeder(case)
    run_script(fd, case["script"], rng)
    for i, e in enumerate(fd.ev):
        e["n"] = i + 1
    return {"ev": fd.ev, "od": fd.header, "ncb": case.get("ncb", 1)}
