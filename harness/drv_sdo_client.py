"""Driver: the real canopen SdoClient against the (untrusted) reference SDO server on an inline
FakeBus.  Produces one trace per case for Trace_SdoClient (C01, client side of C06, C07)."""
from __future__ import annotations

import io
import random
import struct

from harness.bus import FakeBus, INSTANT_QUEUE_MODULE
from harness.common import B
from harness.peers.ref_sdo_server import RefSdoServer

NODE = 2

# CiA 301 data types that are fixed-size numbers: type code -> size in bytes (harness table,
# independent of the library)
NUM_SIZE = {0x1: 1, 0x2: 1, 0x3: 2, 0x4: 4, 0x5: 1, 0x6: 2, 0x7: 4, 0x8: 4, 0x10: 3, 0x11: 8,
            0x12: 5, 0x13: 6, 0x14: 7, 0x15: 8, 0x16: 3, 0x18: 5, 0x19: 6, 0x1A: 7, 0x1B: 8}


def _mk_client_od(cod):
    import canopen
    from canopen.objectdictionary import ODVariable, ODRecord
    od = canopen.ObjectDictionary()
    recs = {}
    for e in cod:
        if e.get("arr"):
            # array described by its first member only: members 2..n exist implicitly
            from canopen.objectdictionary import ODArray
            arr = ODArray(f"Arr{e['idx']:04X}", e["idx"])
            n0 = ODVariable("n", e["idx"], 0)
            n0.data_type = 0x5
            arr.add_member(n0)
            m1 = ODVariable("first", e["idx"], 1)
            m1.data_type = e["dt"]
            arr.add_member(m1)
            od.add_object(arr)
        elif e.get("rec"):
            rec = recs.get(e["idx"])
            if rec is None:
                rec = ODRecord(f"Rec{e['idx']:04X}", e["idx"])
                recs[e["idx"]] = rec
                od.add_object(rec)
            v = ODVariable(f"M{e['sub']}", e["idx"], e["sub"])
            v.data_type = e["dt"]
            rec.add_member(v)
        else:
            v = ODVariable(f"V{e['idx']:04X}", e["idx"], e["sub"])
            v.data_type = e["dt"]
            od.add_object(v)
    return od


def odsize_for(cod, idx, sub):
    for e in cod:
        if e["idx"] != idx:
            continue
        if e.get("arr"):
            return NUM_SIZE.get(e["dt"], -1) if 1 <= sub <= 255 else (1 if sub == 0 else -1)
        if e["sub"] == sub:
            return NUM_SIZE.get(e["dt"], -1)
    return -1


def _classify(exc):
    import canopen
    if isinstance(exc, canopen.SdoAbortedError):
        code = exc.code
        return {"e": "raise", "cls": "abort",
                # exactly the received unsigned 32-bit number (anything else is logged as <<-1>>)
                "code": (B(struct.pack("<L", code)) if isinstance(code, int) and not isinstance(code, bool)
                         and 0 <= code <= 0xFFFFFFFF else [-1])}
    if isinstance(exc, canopen.SdoCommunicationError):
        return {"e": "raise", "cls": "comm", "code": []}
    return {"e": "raise", "cls": "other", "code": [], "repr": f"{type(exc).__name__}: {exc}"[:200]}


def _legal_shape(q, s):
    """does frame s have the shape (specifier, toggle, multiplexer) of a legitimate response to
    request q?  Such a stale frame is indistinguishable by protocol and is not a disturbance."""
    ccs = q[0] >> 5
    scs = s[0] >> 5
    if ccs == 1:
        return scs == 3 and s[1:4] == q[1:4]
    if ccs == 0:
        return scs == 1 and (s[0] & 0x10) == (q[0] & 0x10)
    if ccs == 2:
        return scs == 2 and s[1:4] == q[1:4]
    if ccs == 3:
        return scs == 0 and (s[0] & 0x10) == (q[0] & 0x10)
    return False


class RealServer:
    """The library's own SdoServer (a LocalNode on a second network) in the place of the reference
    server: client AND server are then under test, the specification judges both."""

    def __init__(self, od_entries):
        import canopen
        from canopen.objectdictionary import ODRecord, ODVariable
        od = canopen.ObjectDictionary()
        for e in od_entries:
            if e["sub"] == 0 and not any(x["idx"] == e["idx"] and x["sub"] != 0 for x in od_entries):
                v = ODVariable(f"V{e['idx']:04X}", e["idx"], 0)
                od.add_object(v)
            else:
                if e["idx"] not in od:
                    od.add_object(ODRecord(f"R{e['idx']:04X}", e["idx"]))
                v = ODVariable(f"M{e['sub']}", e["idx"], e["sub"])
                od[e["idx"]].add_member(v)
            v.data_type = 0xF if not e["num"] else {1: 0x5, 2: 0x6, 4: 0x7, 8: 0x1B}[e["size"]]
            v.access_type = e["acc"]
            if e["def"] != [-1]:
                v.default = bytes(e["def"])
        self.out = []
        self.net = canopen.Network()
        self.net.bus = FakeBus(lambda msg: self.out.append(bytes(msg.data)) if msg.arbitration_id == 0x580 + NODE else None)
        self.node = canopen.LocalNode(NODE, od)
        self.net.add_node(self.node)
        self._ph = "?"

    def on_request(self, q):
        self.out = []
        self.net.notify(0x600 + NODE, bytearray(q), 0.0)
        return list(self.out)

    @property
    def ph(self):
        return self._ph

    @ph.setter
    def ph(self, value):
        # the harness wants the transfer aborted on the server side: tell the server so
        if value == "idle":
            self.on_request(struct.pack("<BHBL", 0x80, 0, 0, 0x08000000))


def run_case(case: dict) -> dict:
    """case: {cod, od, style, calls:[...], seed}.  Returns {"ev": [...], "od": od}."""
    import logging
    logging.disable(logging.CRITICAL)
    import canopen
    import canopen.sdo.client as client_mod
    client_mod.queue = INSTANT_QUEUE_MODULE

    rng = random.Random(case.get("seed", 0))
    ev = []
    if case.get("server") == "real":
        server = RealServer(case["od"])
    else:
        server = RefSdoServer(case["od"], case.get("style"), rng)
    state = {"x": 0, "fault": None, "late": []}
    net = canopen.Network()

    def deliver(frame):
        net.notify(0x580 + NODE, bytearray(frame), 0.0)

    def on_send(msg):
        if msg.arbitration_id != 0x600 + NODE:
            ev.append({"e": "foreign", "id": msg.arbitration_id, "d": B(msg.data)})
            return
        q = bytes(msg.data)
        f = state["fault"]
        if f is not None and f["step"] == state["x"] and not f.get("used") and f["kind"] in ("abort", "refuse") \
                and len(q) == 8 and q[0] != 0x80:
            # the server answers this request with an abort (it does not execute it)
            server.ph = "idle"
            r = [struct.pack("<BHBL", 0x80, *struct.unpack_from("<HB", q, 1), f["code"])]
            f["used"] = True
            ev.append({"e": "x", "q": B(q), "r": [B(r[0])], "fault": f["kind"], "dlv": [B(r[0])]})
            state["x"] += 1
            deliver(r[0])
            return
        r = server.on_request(q)
        rec = {"e": "x", "q": B(q), "r": [B(f2) for f2 in r], "fault": "none"}
        dlv = list(r)
        if f is not None and f["step"] == state["x"] and not f.get("used"):
            kind = f["kind"]
            applied = True
            if kind == "drop" and r:
                dlv = []
            elif kind == "late" and r:
                dlv = []
                state["late"] = list(r)
            elif kind == "dup" and r:
                dlv = [r[0], r[0]]
            elif kind == "muxsub" and r and (r[0][0] >> 5) in (2, 3):
                # (an entry at a sub-index other than 0 is answered under sub-index 0, entry 0 under sub-index 1)
                dlv = [r[0][:3] + bytes([0 if r[0][3] else 1]) + r[0][4:]]
            elif kind == "toggle" and r and (r[0][0] >> 5) in (0, 1) and r[0][0] != 0x80:
                dlv = [bytes([r[0][0] ^ 0x10]) + r[0][1:]]
            elif kind == "cs" and r:
                new_cs = f["cs"]
                if new_cs == r[0][0] >> 5 or new_cs == 4:
                    new_cs = (r[0][0] >> 5) ^ 1
                dlv = [bytes([(r[0][0] & 0x1F) | new_cs << 5]) + r[0][1:]]
            elif kind == "mux" and r and (r[0][0] >> 5) in (2, 3):
                dlv = [r[0][:1] + bytes([r[0][1] ^ 1, r[0][2], r[0][3] ^ f.get("subx", 0)]) + r[0][4:]]
            elif kind == "stale" and r and not _legal_shape(q, bytes(f["d"])):
                dlv = [bytes(f["d"])] + list(r)
            else:
                applied = False
            if applied:
                rec["fault"] = kind
                f["used"] = True
        rec["dlv"] = [B(x) for x in dlv]
        ev.append(rec)
        state["x"] += 1
        for fr in dlv:
            deliver(fr)

    bus = FakeBus(on_send)
    net.bus = bus
    node = canopen.RemoteNode(NODE, _mk_client_od(case.get("cod", [])))
    net.add_node(node)
    sdo = node.sdo

    for call in case["calls"]:
        for fr in call.get("inject_before", []):
            ev.append({"e": "inject", "d": list(fr)})
            deliver(bytes(fr))
        api = call["api"]
        idx, sub = call["idx"], call["sub"]
        data = bytes(call.get("data", []))
        op = "dl" if api in ("download", "open_w") else "ul"
        size = call.get("size", -1)
        if api == "download":
            size = len(data)
        ev.append({"e": "call", "op": op, "idx": idx, "sub": sub, "data": B(data) if op == "dl" else [],
                   "size": size if op == "dl" else -1, "force": bool(call.get("force", False)),
                   "odsize": odsize_for(case.get("cod", []), idx, sub) if api == "upload" else -1,
                   "api": api})
        state["x"] = 0
        state["fault"] = dict(call["fault"]) if call.get("fault") else None
        state["late"] = []
        try:
            if api == "download":
                sdo.download(idx, sub, data, call.get("force", False))
                out = b""
            elif api == "upload":
                out = sdo.upload(idx, sub)
            elif api == "open_w":
                mode = call.get("mode", "wb")
                if call.get("via_var"):
                    # the variable spelling of the file interface: node.sdo[index](.[sub]).open(mode, ...)
                    var = node.sdo[idx][sub] if call.get("rec") else node.sdo[idx]
                    fp = var.open(mode, buffering=call.get("buffering", 1024), size=None if size < 0 else size)
                else:
                    fp = sdo.open(idx, sub, mode, buffering=call.get("buffering", 1024),
                                  size=None if size < 0 else size,
                                  force_segment=call.get("force", False))
                stalled = False
                try:
                    pos = 0
                    for n in call["chunks"]:
                        chunk = data[pos:pos + n]
                        pos += n
                        if "b" not in mode:
                            fp.write(chunk.decode("ascii"))
                        elif isinstance(fp, io.RawIOBase):
                            # raw stream: honour the returned count like any RawIOBase user
                            if not chunk:
                                fp.write(b"")
                            while chunk:
                                w = fp.write(chunk)
                                if not w:
                                    stalled = True
                                    break
                                chunk = chunk[w:]
                            if stalled:
                                break
                        else:
                            fp.write(chunk)
                finally:
                    fp.close()
                    if call.get("double_close"):
                        fp.close()          # close() is idempotent for every file object
                if stalled:
                    ev.append({"e": "hang", "why": "raw write() returned 0 for a non-empty chunk"})
                    continue
                out = b""
            elif api == "open_r":
                mode = call.get("mode", "rb")
                out = b""
                with sdo.open(idx, sub, mode, buffering=call.get("buffering", 1024)) as fp:
                    for n in call.get("reads", []):
                        piece = fp.read(n)
                        if piece is None:
                            piece = b""
                        if isinstance(piece, str):
                            piece = piece.encode("ascii")
                        out += piece
                    while call.get("chunked"):
                        piece = fp.read(call["chunked"])
                        if not piece:
                            break           # the caller takes an empty piece for the end of the data
                        out += piece.encode("ascii") if isinstance(piece, str) else piece
                    # one read() to the end, as a caller does it
                    piece = (fp.read() or b"") if not call.get("chunked") else b""
                    if isinstance(piece, str):
                        piece = piece.encode("ascii")
                    out += piece
            else:
                raise ValueError(api)
            ev.append({"e": "ret", "data": B(out)})
        except Exception as exc:  # noqa
            ev.append(_classify(exc))
        for fr in state["late"]:
            ev.append({"e": "inject", "d": B(fr)})
            deliver(fr)
    for i, e in enumerate(ev):
        e["n"] = i + 1
    return {"ev": ev, "od": case["od"], "realsrv": case.get("server") == "real"}
