"""Driver for C15: producer (LocalNode TPDO1) and consumer (RemoteNode with several TPDO maps) on two
networks joined by an inline bus; values set on the producer, transmitted, read on the consumer."""
from __future__ import annotations

import threading
import time

from harness import enc
from harness.common import B
from harness.drv_pdobits import pyval
from harness.tv import tv


def build_od(lay, nmaps):
    import canopen
    from canopen.objectdictionary import ODArray, ODRecord, ODVariable
    od = canopen.ObjectDictionary()
    for m in range(nmaps):
        com = ODRecord(f"TPDO{m + 1} com", 0x1800 + m)
        od.add_object(com)
        for sub, dt in ((0, 0x5), (1, 0x7), (2, 0x5)):
            v = ODVariable(f"c{sub}", 0x1800 + m, sub)
            v.data_type = dt
            com.add_member(v)
        mp = ODArray(f"TPDO{m + 1} map", 0x1A00 + m)
        od.add_object(mp)
        for sub in range(0, 9):
            v = ODVariable(f"m{sub}", 0x1A00 + m, sub)
            v.data_type = 0x5 if sub == 0 else 0x7
            mp.add_member(v)
    for i, (t, n) in enumerate(lay):
        if (0x2000 + i) in od:
            continue
        v = ODVariable(f"Obj{i}", 0x2000 + i, 0)
        v.data_type = t
        od.add_object(v)
    return od


class Link:
    channel_info = "verif-pdo-link"

    def __init__(self, frames, forward):
        self.frames, self.forward = frames, forward

    def send(self, msg, timeout=None):
        self.frames.append({"id": msg.arbitration_id, "d": B(msg.data), "rtr": bool(msg.is_remote_frame),
                            "ext": bool(msg.is_extended_id)})
        self.forward(msg)

    def send_periodic(self, *a, **k):
        raise RuntimeError("not used")

    def shutdown(self):
        pass


def run_case(case: dict) -> dict:
    import logging
    logging.disable(logging.CRITICAL)
    import canopen
    lay = [tuple(x) for x in case["lay"]]
    cons_cfg = case["cons"]
    od = build_od(lay, max(1, len(cons_cfg)))
    frames = []
    clock = {"ts": 0}
    net1, net2 = canopen.Network(), canopen.Network()
    import can

    def to(net):
        # every frame reaches the peer through its MessageListener, as on a real python-can bus
        def fwd(msg):
            net.listeners[0].on_message_received(
                can.Message(arbitration_id=msg.arbitration_id, data=bytes(msg.data), timestamp=clock["ts"],
                            is_extended_id=msg.is_extended_id, is_remote_frame=msg.is_remote_frame))
        return fwd
    net1.bus = Link(frames, to(net2))
    net2.bus = Link(frames, to(net1))
    prod = canopen.LocalNode(case.get("nid", 4), od)
    net1.add_node(prod)
    od2 = build_od(lay, max(1, len(cons_cfg)))
    consn = canopen.RemoteNode(case.get("nid", 4), od2)
    net2.add_node(consn)
    pmap = prod.tpdo[1]
    pmap.cob_id = case["pcob"]
    pmap.enabled = case.get("penabled", True)      # transmit() does not ask whether the map is enabled

    # objs[i]: number of the object mapped into slot i (an object may be mapped more than once)
    objs = case.get("objs") or list(range(len(lay)))

    def add_vars(pm):
        for i, (t, n) in enumerate(lay):
            full = n == 8 * enc.NUM_SIZE[t]
            pm.add_variable(0x2000 + objs[i], 0, None if full else n)
    add_vars(pmap)
    pmap.subscribe()      # as after tpdo.read() / save(): the producing map listens on its own COB-ID
    cmaps, cbcount = [], []
    for k, c in enumerate(cons_cfg):
        pm = consn.tpdo[k + 1]
        if case.get("via_read"):
            # the consumer learns the shared configuration from its object dictionary (as from a DCF)
            od2[0x1800 + k][1].default = (c["cob"] | (0 if c["enabled"] else 0x80000000)
                                          | (0 if c["rtr"] else 0x40000000))
            od2[0x1800 + k][2].default = c.get("tt", 255)
            od2[0x1A00 + k][0].default = len(lay)
            for i, (t, n) in enumerate(lay):
                od2[0x1A00 + k][i + 1].default = ((0x2000 + objs[i]) << 16) | n
            pm.read(from_od=True)
        else:
            pm.cob_id, pm.enabled, pm.rtr_allowed = c["cob"], c["enabled"], c["rtr"]
            pm.trans_type = c.get("tt", 255)
            add_vars(pm)
        cbcount.append(0)
        for _ in range(c["ncb"]):
            pm.add_callback(lambda m, _k=k: cbcount.__setitem__(_k, cbcount[_k] + 1))

        def boomcb(m, _k=k):
            # a user callback that fails (armed by a "wait" operation, registered last: the counted ones ran)
            if boom["k"] == _k + 1:
                raise RuntimeError("callback failure")
        pm.add_callback(boomcb)
        pm.subscribe()
        cmaps.append(pm)
    ev = []
    boom = {"k": 0}

    def cons_proj():
        return [{"d": B(pm.data), "ts": -1 if pm.timestamp is None else pm.timestamp,
                 "period": -1 if pm.period is None else pm.period, "cbs": cbcount[k]} for k, pm in enumerate(cmaps)]

    for op in case["ops"]:
        o = op["op"]
        if o == "pset":
            val = pyval(op["v"])
            e = {"e": "pset", "i": op["i"], "v": tv(val), "ok": True}
            try:
                pmap[op["i"] - 1].raw = val
            except Exception:  # noqa
                e["ok"] = False
            e["after"] = B(pmap.data)
            ev.append(e)
        elif o == "tx":
            del frames[:]
            clock["ts"] = op["ts"]
            pmap.transmit()
            ev.append({"e": "tx", "ts": op["ts"], "frames": list(frames), "cons": cons_proj()})
        elif o == "inject":
            try:
                net2.notify(op["id"], bytearray(op["d"]), op["ts"])
            except Exception:  # noqa
                pass
            ev.append({"e": "inject", "id": op["id"], "d": list(op["d"]), "ts": op["ts"], "cons": cons_proj()})
        elif o == "read":
            how = op.get("how", "slot")
            k, i = op["k"], op["i"]
            if how.startswith("node_"):
                k = 1           # node-level lookups find the first map that holds the object
            e = {"e": "read", "k": k, "i": i, "ok": True, "how": how}
            try:
                pm, idx = cmaps[k - 1], 0x2000 + i - 1
                var = {"slot": lambda: pm[i - 1], "index": lambda: pm[idx], "name": lambda: pm[f"Obj{i - 1}"],
                       "hex": lambda: pm[f"{idx:X}"], "mapno": lambda: consn.tpdo[k][i - 1],
                       "mapidx": lambda: consn.pdo[0x1A00 + k - 1][i - 1],
                       "node_name": lambda: consn.tpdo[f"Obj{i - 1}"], "node_index": lambda: consn.tpdo[idx],
                       "node_pdo": lambda: consn.pdo[f"Obj{i - 1}"]}[how]()
                e["v"] = tv(var.raw)
            except Exception as exc:  # noqa
                e["ok"], e["v"], e["repr"] = False, {"k": "none"}, repr(exc)[:100]
            ev.append(e)
        elif o == "recfg":
            pm = cmaps[op["k"] - 1]
            pm.cob_id, pm.enabled, pm.rtr_allowed = op["cob"], op["enabled"], op["rtr"]
            pm.subscribe()
            ev.append({"e": "recfg", "k": op["k"], "cob": op["cob"], "enabled": op["enabled"], "rtr": op["rtr"]})
        elif o == "pecho":
            # a data frame with the producing map's own COB-ID arrives at the producer's network through
            # its listener (echo of an own frame / a second transmitter): the map takes it if it listens
            try:
                net1.listeners[0].on_message_received(
                    can.Message(arbitration_id=case["pcob"], data=bytes(op["d"]), timestamp=op["ts"],
                                is_extended_id=case["pcob"] > 0x7FF))
            except Exception:  # noqa
                pass
            ev.append({"e": "pecho", "d": list(op["d"]), "after": B(pmap.data)})
        elif o == "pen":
            pmap.enabled = op["v"]
            ev.append({"e": "pen", "v": op["v"]})
        elif o == "remap":
            # one consumer map is mapped anew (nothing is received meanwhile): the other maps keep what they hold
            pm = cmaps[op["k"] - 1]
            e = {"e": "remap", "k": op["k"], "ok": True}
            try:
                pm.clear()
                add_vars(pm)
            except Exception as exc:  # noqa
                e["ok"], e["repr"] = False, repr(exc)[:100]
            e["cons"] = cons_proj()
            ev.append(e)
        elif o == "rtr":
            del frames[:]
            before = bytes(pmap.data)
            cmaps[op["k"] - 1].remote_request()
            ev.append({"e": "rtr", "k": op["k"], "frames": list(frames), "pdata_kept": bytes(pmap.data) == before,
                       "cons": cons_proj()})
        elif o == "wait":
            pm = cmaps[op["k"] - 1]
            res = {}

            def waiter():
                r = pm.wait_for_reception(timeout=op["timeout"])
                res["r"] = -1 if r is None else r
            th = threading.Thread(target=waiter, daemon=True)
            th.start()
            fed = []
            for ts in op["feed"]:
                t0 = time.time()
                while not pm.receive_condition._waiters and th.is_alive() and time.time() - t0 < 5:
                    time.sleep(0.0005)
                if not th.is_alive():
                    break
                clock["ts"] = ts
                # a failing callback of the waiting map must not cost the reader its wake-up (armed only when
                # that map is the last subscriber of the COB-ID: the exception ends the delivery of the frame)
                subs = pm.pdo_node.network.subscribers.get(case["pcob"], [])
                if op.get("boom") and subs and subs[-1] == pm.on_message:
                    boom["k"] = op["k"]
                try:
                    pmap.transmit()          # delivered from this (second) thread while the waiter waits
                except RuntimeError:
                    pass
                finally:
                    boom["k"] = 0
                fed.append(ts)
            th.join(10)
            ev.append({"e": "wait", "k": op["k"], "fed": fed, "result": res.get("r", -2), "cons": cons_proj()})
    for i, e in enumerate(ev):
        e["n"] = i + 1
    return {"ev": ev, "lay": [list(x) for x in lay], "pcob": case["pcob"], "psub": bool(case.get("penabled", True)),
            "cons": [dict(c) for c in cons_cfg]}
