"""Driver for C18: the real LssMaster against a CiA 305 slave simulator with virtual time."""
from __future__ import annotations

import struct

from harness import bus as hbus
from harness.bus import FakeBus, FakeTime
from harness.common import B


class LssSlave:
    def __init__(self, ident, nid=255, present=True):
        self.ident, self.nid, self.present = list(ident), nid, present
        self.mode = "waiting"
        self.pos = 0
        self.sel = [None] * 4
        self.reply_mode = "ok"

    def on_frame(self, q):
        if not self.present:
            return []
        cs = q[0]
        if cs == 0x51:
            idn, bc, sub, nxt = struct.unpack_from("<IBBB", q, 1)
            if self.mode != "waiting" or self.nid != 255:
                return []
            if bc == 128:
                self.pos = 0
                return [bytes([0x4F]) + bytes(7)]
            if sub != self.pos or sub > 3 or bc > 31:
                return []
            if (self.ident[sub] ^ idn) >> bc:
                return []
            self.pos = nxt
            if bc == 0 and nxt < sub:
                self.mode = "config"
            return [bytes([0x4F]) + bytes(7)]
        m = self.reply_mode
        if cs == 0x04:
            self.mode = "config" if q[1] else "waiting"
            return []
        if cs == 0x15:
            return []
        if 0x40 <= cs <= 0x43:
            self.sel[cs - 0x40] = struct.unpack_from("<I", q, 1)[0]
            if cs == 0x43:
                if m == "silence":
                    return []
                if self.sel == self.ident:
                    self.mode = "config"
                    return [bytes([0x44]) + bytes(7)]
                return []
            return []
        if m == "silence":
            return []
        rcs = cs ^ 0x21 if m == "wrongcs" else cs
        if m == "sibling":      # the reply of a neighbouring service of the same family
            if 0x5A <= cs <= 0x5D:
                rcs = 0x5A + (cs - 0x5A + 1) % 4
            elif cs == 0x5E:
                rcs = 0x5D
            else:
                rcs = {0x11: 0x13, 0x13: 0x17, 0x17: 0x11}.get(cs, cs ^ 0x21)
        if cs in (0x11, 0x13, 0x17):
            err = int(m.split(":")[1]) if m.startswith("err") else 0
            if cs == 0x11 and not err:
                self.nid = q[1]
            return [bytes([rcs, err, 0]) + bytes(5)]
        if cs == 0x5E:
            return [bytes([rcs, self.nid]) + bytes(6)]
        if 0x5A <= cs <= 0x5D:
            return [bytes([rcs]) + struct.pack("<I", self.ident[cs - 0x5A]) + bytes(3)]
        return []


def run_case(case: dict) -> dict:
    import logging
    import queue as real_queue
    import types
    logging.disable(logging.CRITICAL)
    import canopen
    import canopen.lss as lss_mod
    lss_mod.queue = types.SimpleNamespace(Queue=hbus.InstantQueue, Empty=real_queue.Empty)
    lss_mod.time = FakeTime()
    ident = case["ident"]
    slave = LssSlave(ident, case.get("nid", 255), case.get("present", True))
    ev = []
    net = canopen.Network()

    pending = []

    def on_send(msg):
        q = bytes(msg.data)
        late = slave.reply_mode == "late"
        if late:
            slave.reply_mode = "ok"
        r = slave.on_frame(q) if len(q) == 8 else []
        if late:
            slave.reply_mode = "late"
        ev.append({"e": "x", "id": msg.arbitration_id, "q": B(q), "r": [B(f) for f in r], "late": late})
        for f in r:
            if late:        # the answer arrives only after the master has given up
                pending.append(f)
            else:
                net.notify(0x7E4, bytearray(f), 0.0)
    net.bus = FakeBus(on_send)
    net.lss.responses = hbus.InstantQueue()
    lss = net.lss
    for op in case["ops"]:
        name = op["name"]
        slave.reply_mode = op.get("reply", "ok")
        if name == "newdev":
            # the scanned device has been configured and removed; another unconfigured one appears
            slave.__init__(op["ident"], 255, True)
            ev.append({"e": "newdev", "ident": [B(struct.pack("<I", x)) for x in op["ident"]]})
            continue
        if name == "fast_scan":
            try:
                ok, ids = lss.fast_scan()
                ev.append({"e": "scan_ret", "ok": bool(ok),
                           "ident": [B(struct.pack("<I", x)) for x in ids] if ids else []})
            except Exception as exc:  # noqa
                ev.append({"e": "scan_ret", "ok": False, "ident": [], "repr": repr(exc)[:100], "crash": True})
            continue
        e = {"e": "svc", "name": name, "args": list(op.get("args", [])), "ids": [], "result": "ok", "val": []}
        try:
            if name == "switch_global":
                lss.send_switch_state_global(op["args"][0])
            elif name == "configure_node_id":
                lss.configure_node_id(op["args"][0])
            elif name == "configure_bit_timing":
                lss.configure_bit_timing(op["args"][0])
            elif name == "store":
                lss.store_configuration()
            elif name == "activate":
                lss.activate_bit_timing(op["args"][0])
            elif name == "inquire_node_id":
                e["val"] = [lss.inquire_node_id()]
            elif name == "inquire_address":
                e["val"] = B(struct.pack("<I", lss.inquire_lss_address(op["args"][0])))
            elif name == "identify":
                ids = op["ids"]
                e["ids"] = [B(struct.pack("<I", x)) for x in ids]
                lss.send_identify_remote_slave(*ids)
            elif name == "identify_nc":
                lss.send_identify_non_configured_remote_slave()
            elif name == "switch_selective":
                ids = op["ids"]
                e["ids"] = [B(struct.pack("<I", x)) for x in ids]
                e["args"] = []
                e["val"] = [1 if lss.send_switch_state_selective(*ids) else 0]
        except canopen.lss.LssError:
            e["result"] = "LssError"
            e["val"] = []
        except Exception as exc:  # noqa
            e["result"] = "other:" + type(exc).__name__
            e["val"] = []
        ev.append(e)
        for f in pending:
            net.notify(0x7E4, bytearray(f), 0.0)
        del pending[:]
    for i, e in enumerate(ev):
        e["n"] = i + 1
    return {"ev": ev, "ident": [B(struct.pack("<I", x)) for x in ident], "present": bool(case.get("present", True)),
            "nid": case.get("nid", 255)}
