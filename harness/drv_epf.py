"""Driver for the EPF import (Table_Epf): random parameter groups, written as XML by the harness'
own writer, imported with the library, projected row by row."""
from __future__ import annotations

import io
import os
import random
import tempfile
from xml.sax.saxutils import escape, quoteattr

DTYPES = ["BOOLEAN", "INTEGER8", "INTEGER16", "INTEGER32", "UNSIGNED8", "UNSIGNED16", "UNSIGNED32", "REAL32",
          "VISIBLE_STRING", "DOMAIN", "UNSIGNED64", "FLOAT", ""]
FACTORS = ["", "1", "10", "1000", "0.5", "0.25", "-2", "1e-3", "2.0"]
ACCESS = ["", "rw", "ro", "wo", "const"]


def num(rng):
    r = rng.random()
    if r < 0.25:
        return {"s": "", "isint": False, "v": 0}
    if r < 0.85:
        v = rng.choice([0, 1, -1, 127, -128, 65535, 2147483647, -2147483648 + 1, rng.randrange(-10 ** 6, 10 ** 6)])
        return {"s": str(v), "isint": True, "v": v}
    return {"s": rng.choice(["0x10", "1.5", "abc", "-"]), "isint": False, "v": 0}


def attr(name, val):
    return f" {name}={quoteattr(val)}" if val != "" else ""


def gen(rng):
    bitrate = rng.choice(["none", "", "125", "250", "500U", "1000", "50U"])
    groups, used = [], set()
    for _ in range(rng.randrange(1, 9)):
        idx = rng.choice([i for i in (rng.randrange(0x1000, 0xA000) for _ in range(20)) if i not in used])
        used.add(idx)
        npar = rng.choice([1, 1, 2, 2, 3, 5])
        second_is_array = npar >= 2 and rng.random() < 0.5
        g = {"group": f"Grp_{idx:X}", "index": idx, "gdesc": rng.choice(["", "group text", "a < b & c"]), "pars": []}
        for sub in range(npar):
            p = {"name": f"P{idx:X}_{sub}", "sub": sub, "dtype": rng.choice(DTYPES), "factor": rng.choice(FACTORS),
                 "unit": rng.choice(["", "-", "mm", "rpm", "°C"]), "desc": rng.choice(["", "text", "x > 1 & \"q\""]),
                 "access": rng.choice(ACCESS), "min": num(rng), "max": num(rng), "default": num(rng),
                 "vdescs": [[rng.choice([str(v), hex(v)]), v, f"val {v}"] for v in sorted(rng.sample(range(0, 40), rng.randrange(0, 4)))],
                 "bitdefs": [[f"bf{j}", sorted(rng.sample(range(0, 16), rng.randrange(1, 4)))] for j in range(rng.randrange(0, 3))],
                 "objtype": "ARRAY" if (sub == 1 and second_is_array) else rng.choice(["", "VAR"]),
                 "idx_spelling": rng.choice(["hex", "dec"])}
            g["pars"].append(p)
        g["npar"], g["second_is_array"] = npar, second_is_array
        groups.append(g)
    return {"bitrate": bitrate, "groups": groups}


def write_xml(doc) -> str:
    out = ['<?xml version="1.0" encoding="utf-8"?>', "<Product>"]
    if doc["bitrate"] != "none":
        out.append("  <Configuration><CANopen" + attr("BitRate", doc["bitrate"]) + " NodeID=\"5\"/></Configuration>")
    out.append("  <Dictionary><Parameters>")
    for g in doc["groups"]:
        out.append(f"    <Group SymbolName={quoteattr(g['group'])}>")
        if g["gdesc"]:
            out.append(f"      <Description>{escape(g['gdesc'])}</Description>")
        for p in g["pars"]:
            idx = f"0x{g['index']:X}" if p["idx_spelling"] == "hex" else str(g["index"])
            a = (attr("Index", idx) + f' SubIndex="{p["sub"]}"' + attr("SymbolName", p["name"]) + attr("DataType", p["dtype"])
                 + attr("Factor", p["factor"]) + attr("Unit", p["unit"]) + attr("AccessType", p["access"])
                 + attr("MinimumValue", p["min"]["s"]) + attr("MaximumValue", p["max"]["s"])
                 + attr("DefaultValue", p["default"]["s"]) + attr("ObjectType", p["objtype"]))
            out.append(f"      <Parameter{a}>")
            if p["desc"]:
                out.append(f"        <Description>{escape(p['desc'])}</Description>")
            if p["vdescs"]:
                out.append("        <ValueFieldDefs>" + "".join(
                    f"<ValueFieldDef Value={quoteattr(s)} Description={quoteattr(d)}/>" for s, _, d in p["vdescs"]) + "</ValueFieldDefs>")
            if p["bitdefs"]:
                out.append("        <BitFieldDefs>" + "".join(
                    f"<BitFieldDef Name={quoteattr(n)} Bit={quoteattr(','.join(map(str, b)))}/>" for n, b in p["bitdefs"]) + "</BitFieldDefs>")
            out.append("      </Parameter>")
        out.append("    </Group>")
    out.append("  </Parameters></Dictionary>")
    out.append("</Product>")
    return "\n".join(out)


def run_case(case: dict) -> dict:
    import logging
    logging.disable(logging.CRITICAL)
    import canopen
    from canopen.objectdictionary import ODArray, ODRecord, ODVariable
    rng = random.Random(case["seed"])
    doc = gen(rng)
    text = write_xml(doc)
    how = case.get("how", "path")
    if how == "path":
        fd, path = tempfile.mkstemp(suffix=".epf")
        os.write(fd, text.encode("utf-8"))
        os.close(fd)
        try:
            od = canopen.import_od(path)
        finally:
            os.unlink(path)
    elif how == "fileobj":
        fo = io.BytesIO(text.encode("utf-8"))
        fo.name = "thing.epf"
        od = canopen.import_od(fo)
    else:
        import xml.etree.ElementTree as etree
        from canopen.objectdictionary.epf import import_epf
        od = import_epf(etree.fromstring(text.encode("utf-8")))
    rows = []
    br = -1 if od.bitrate is None else od.bitrate
    for g in doc["groups"]:
        for p in g["pars"]:
            want = {"group": g["group"], "npar": g["npar"], "second_is_array": g["second_is_array"], "gdesc": g["gdesc"],
                    "name": p["name"], "dtype": p["dtype"], "factor": p["factor"], "unit": p["unit"], "desc": p["desc"],
                    "access": p["access"], "min": p["min"], "max": p["max"], "default": p["default"],
                    "vdescs": [[v, d] for _, v, d in p["vdescs"]], "bitdefs": [[n, list(b)] for n, b in p["bitdefs"]],
                    "bitrate": doc["bitrate"], "bitrate_num": int(doc["bitrate"].replace("U", "") or 0) if doc["bitrate"] != "none" else 0}
            got = {"found": False}
            try:
                obj = od[g["index"]]
                kind = "var" if isinstance(obj, ODVariable) else "arr" if isinstance(obj, ODArray) else "rec" if isinstance(obj, ODRecord) else "?"
                var = obj if kind == "var" else obj[p["sub"]]
                if kind == "var" and p["sub"] != var.subindex:
                    raise KeyError("sub")

                def n3(x):
                    return {"has": x is not None, "v": int(x) if x is not None else 0}
                got = {"found": True, "kind": kind, "parent": "" if kind == "var" else obj.name, "name": var.name,
                       "dtype": -1 if var.data_type is None else var.data_type, "access": var.access_type,
                       "min": n3(var.min), "max": n3(var.max), "default": n3(var.default), "unit": var.unit or "",
                       "factor": repr(var.factor), "desc": var.description or "",
                       "vdescs": [[k, v] for k, v in sorted(var.value_descriptions.items())],
                       "bitdefs": [[k, list(v)] for k, v in sorted(var.bit_definitions.items())],
                       "bitrate": br, "cdesc": "" if kind == "var" else (obj.description or "")}
            except Exception as exc:  # noqa
                got = {"found": False, "repr": repr(exc)[:100]}
            rows.append({"want": want, "got": got})
    return {"rows": rows}
