"""Driver for C05: a real PdoMap is built with add_variable() from a layout (sequence of
<<type, bit length>>), arbitrary frame contents are installed, variables are written / read through
PdoVariable.raw; frame after every write and every value read are logged for Trace_PdoBits."""
from __future__ import annotations

from harness import enc
from harness.common import B
from harness.tv import tv


def build(lay):
    import canopen
    from canopen.objectdictionary import ODArray, ODRecord, ODVariable
    od = canopen.ObjectDictionary()
    com = ODRecord("RPDO1 com", 0x1400)
    od.add_object(com)
    for sub, dt, d in ((0, 0x5, 2), (1, 0x7, 0x201), (2, 0x5, 254)):
        v = ODVariable(f"c{sub}", 0x1400, sub)
        v.data_type, v.default = dt, d
        com.add_member(v)
    mp = ODArray("RPDO1 map", 0x1600)
    od.add_object(mp)
    for sub in range(0, 9):
        v = ODVariable(f"m{sub}", 0x1600, sub)
        v.data_type, v.default = (0x5 if sub == 0 else 0x7), 0
        mp.add_member(v)
    for i, (t, n) in enumerate(lay):
        v = ODVariable(f"Obj{i}", 0x2000 + i, 0)
        v.data_type = t
        od.add_object(v)
    node = canopen.RemoteNode(1, od)
    return node


def pyval(v):
    if "int" in v:
        return v["int"]
    if "hex" in v:
        return float.fromhex(v["hex"])
    return v["bool"]


def run_case(case: dict) -> dict:
    import logging
    logging.disable(logging.CRITICAL)
    lay = [tuple(x) for x in case["lay"]]
    node = build(lay)
    pm = node.rpdo[1]
    ev = []
    if case.get("premap"):
        # the map held another (longer) mapping before: clear() and map again, as read() does
        for i in case["premap"]:
            try:
                short = case.get("premap_short") and i < len(lay) and enc.NUM_SIZE.get(lay[i][0]) == 1 and lay[i][0] != enc.BOOLEAN
                pm.add_variable(0x2000 + i, 0, 3 if short else None)
                node.rpdo[f"Obj{i}"].raw      # looked up through the node's PDO collection as well
                node.rpdo[0x2000 + i]
            except Exception:  # noqa
                pass
        try:
            if pm.data:
                pm[0].raw = pm[0].raw        # touch the frame once
        except Exception:  # noqa
            pass
        pm.clear()
    for i, (t, n) in enumerate(lay):
        full = n == 8 * enc.NUM_SIZE[t]
        try:
            var = pm.add_variable(0x2000 + i, 0, None if full and case.get("implicit_len", True) else n)
        except Exception as exc:  # noqa  a mapping of at most 64 bits must be accepted
            ev.append({"e": "add", "i": i + 1, "off": -1, "length": -1, "datalen": -1, "repr": repr(exc)[:100]})
            for k, e in enumerate(ev):
                e["n"] = k + 1
            return {"ev": ev, "lay": [list(x) for x in lay]}
        ev.append({"e": "add", "i": i + 1, "off": var.offset, "length": var.length, "datalen": len(pm.data)})
    for op in case["ops"]:
        if op["op"] == "setframe":
            how = op.get("how", "assign")
            if how == "rx":            # the frame arrives from the bus
                pm.cob_id = 0x201
                pm.on_message(0x201, bytearray(op["d"]), 1.0)
            elif how == "inplace":
                try:
                    pm.data[:] = bytes(op["d"])
                except TypeError:       # the map's buffer must stay writable whatever happened before
                    ev.append({"e": "write", "i": 1, "v": {"k": "none"}, "ok": False, "after": B(pm.data),
                               "repr": "the data buffer of the map is not writable"})
                    pm.data = bytearray(op["d"])
            else:
                pm.data = bytearray(op["d"])
            ev.append({"e": "setframe", "d": list(op["d"]), "how": how})
        elif op["op"] == "write":
            var = node.rpdo[f"Obj{op['i'] - 1}"] if op.get("how") == "node" else pm[op["i"] - 1]
            val = pyval(op["v"])
            ok = True
            try:
                var.raw = val
            except Exception:  # noqa
                ok = False
            ev.append({"e": "write", "i": op["i"], "v": tv(val), "ok": ok, "after": B(pm.data)})
        elif op["op"] == "read":
            var = (node.rpdo[0x2000 + op["i"] - 1] if op.get("how") == "node" else pm[op["i"] - 1])
            try:
                got = var.raw
                ev.append({"e": "read", "i": op["i"], "v": tv(got), "ok": True})
            except Exception as exc:  # noqa
                ev.append({"e": "read", "i": op["i"], "v": {"k": "none"}, "ok": False, "repr": repr(exc)[:100]})
    for k, e in enumerate(ev):
        e["n"] = k + 1
    return {"ev": ev, "lay": [list(x) for x in lay]}
