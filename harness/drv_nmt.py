"""Driver for C11: NmtMaster (RemoteNode.nmt) and NmtSlave (LocalNode.nmt) of one node id on two
networks joined by an inline bus.  After every step both reported state names and all frames are
logged for Trace_Nmt."""
from __future__ import annotations

import threading
import time

from harness.common import B


class Link:
    channel_info = "verif-nmt-link"

    def __init__(self, side, frames, forward):
        self.side, self.frames, self.forward = side, frames, forward

    def send(self, msg, timeout=None):
        self.frames.append({"side": self.side, "id": msg.arbitration_id, "d": B(msg.data)})
        self.forward(msg.arbitration_id, bytes(msg.data))

    def send_periodic(self, msg, period, **kw):
        class T:
            def stop(self):
                pass

            def modify_data(self, m):
                pass
        return T()

    def shutdown(self):
        pass


def run_case(case: dict) -> dict:
    import logging
    logging.disable(logging.CRITICAL)
    import canopen
    from canopen.objectdictionary import ODVariable
    nid = case["nid"]
    od = canopen.ObjectDictionary()
    hb = ODVariable("Producer heartbeat time", 0x1017, 0)
    hb.data_type = 0x6
    hb.default = 0
    od.add_object(hb)
    frames = []
    net1, net2 = canopen.Network(), canopen.Network()
    net1.bus = Link("master", frames, lambda cid, d: net2.notify(cid, bytearray(d), 0.0))
    net2.bus = Link("slave", frames, lambda cid, d: net1.notify(cid, bytearray(d), 0.0))
    rnode = canopen.RemoteNode(nid, od)
    lnode = canopen.LocalNode(nid, od)
    net1.add_node(rnode)
    net2.add_node(lnode)
    master, slave = rnode.nmt, lnode.nmt
    hbcalls = []
    master.add_heartbeat_callback(lambda st: hbcalls.append([1, st]))
    master.add_hearbeat_callback(lambda st: hbcalls.append([2, st]))       # the old spelling of the same method
    ev = []

    def log(e, raised=False):
        e["raised"] = raised
        e["frames"] = list(frames)
        e["mname"] = master.state
        e["sname"] = slave.state
        del frames[:]
        ev.append(e)

    for op in case["ops"]:
        o = op["op"]
        raised = False
        if o == "cmd":
            tgt = {"master": master, "slave": slave, "bcast": net1.nmt}[op["who"]]
            try:
                tgt.send_command(op["code"])
            except Exception:  # noqa
                raised = True
            log({"e": "cmd", "who": op["who"], "code": op["code"]}, raised)
        elif o == "guard":
            # node guarding switched on / off at the master: what it hears on 0x700 + id means the same
            try:
                if op["on"]:
                    master.start_node_guarding(0.05)
                else:
                    master.stop_node_guarding()
            except Exception:  # noqa
                raised = True
            log({"e": "guard", "on": bool(op["on"])}, raised)
        elif o == "inject":
            data = bytearray([op["code"], op["target"]])
            try:
                net1.notify(0, bytearray(data), 0.0)
                net2.notify(0, bytearray(data), 0.0)
            except Exception:  # noqa
                raised = True
            log({"e": "inject", "code": op["code"], "target": op["target"]}, raised)
        elif o == "set":
            tgt = master if op["who"] == "master" else slave
            try:
                tgt.state = op["name"]
            except ValueError:
                raised = True
            except Exception:  # noqa
                raised = "other"
            log({"e": "set", "who": op["who"], "name": op["name"]}, raised is True)
            if raised == "other":
                ev[-1]["crash"] = True
        elif o == "hb":
            del hbcalls[:]
            try:
                net1.notify(0x700 + nid, bytearray([op["byte"]]), float(op.get("ts", 1)))
            except Exception:  # noqa
                raised = True
            log({"e": "hb", "byte": op["byte"], "cbs": [list(c) for c in hbcalls],
                 "ts": -1 if master.timestamp is None else int(master.timestamp)}, raised)
        elif o == "wait":
            res = {}

            def waiter():
                try:
                    if op["kind"] == "hb":
                        res["r"] = master.wait_for_heartbeat(timeout=op["timeout"])
                    else:
                        master.wait_for_bootup(timeout=op["timeout"])
                        res["r"] = "ok"
                except canopen.nmt.NmtError:
                    res["r"] = "NmtError"
                except Exception as exc:  # noqa
                    res["r"] = f"other:{type(exc).__name__}"
            import canopen.nmt as nmt_mod
            import types

            class _Clock:       # real time plus an offset the harness can advance (a frame "arrives late")
                now = 0.0

                def time(self):
                    return time.time() + self.now
                monotonic = time
            vclock = nmt_mod.time = _Clock()
            late_from = op.get("late_from")         # index of the first frame that arrives after the deadline
            t_begin = vclock.time()
            th = threading.Thread(target=waiter, daemon=True)
            th.start()
            fed, late = [], []
            inj = list(op.get("inject") or [])
            if inj:
                # a third party's command frame arrives while the caller is parked in its wait
                t0 = time.time()
                while not master.state_update._waiters and th.is_alive() and time.time() - t0 < 5:
                    time.sleep(0.0005)
                if th.is_alive():
                    net1.notify(0, bytearray(inj), 0.0)
                    net2.notify(0, bytearray(inj), 0.0)
                    time.sleep(0.01)
                else:
                    inj = []
            for k, b in enumerate(op["feed"]):
                # feed only once the waiter is parked on the condition variable
                t0 = time.time()
                while not master.state_update._waiters and th.is_alive() and time.time() - t0 < 5:
                    time.sleep(0.0005)
                if not th.is_alive():
                    break
                if late_from is not None and k == late_from:
                    vclock.now += op["timeout"] + 1.0
                net1.notify(0x700 + nid, bytearray([b]), 2.0)
                fed.append(b)
                late.append(1 if late_from is not None and k >= late_from else 0)
                # let the waiter wake up and (for boot-up waits) park again
                t0 = time.time()
                while master.state_update._waiters and th.is_alive() and time.time() - t0 < 0.05:
                    time.sleep(0.0005)
            t_fed = time.time()
            th.join(10)
            # "slow": a heartbeat wait that had its message went on sleeping for more than half its time-out
            slow = op["kind"] == "hb" and bool(fed) and op["timeout"] >= 5 and time.time() - t_fed > 0.5 * op["timeout"]
            # "early": the wait failed well before its time-out (on the clock the library sees) had run out
            early = res.get("r") == "NmtError" and (vclock.time() - t_begin) < 0.8 * op["timeout"]
            log({"e": "wait", "kind": op["kind"], "fed": fed, "late": late, "inj": inj, "early": bool(early), "slow": bool(slow),
                 "result": res.get("r", "hang")})
    for i, e in enumerate(ev):
        e["n"] = i + 1
    return {"ev": ev, "nid": nid}
