"""Shared plumbing of the checks: evidence files, known findings, verdict lines, replay files."""
from __future__ import annotations

import argparse
import json
import os
import subprocess
import sys
import time

ROOT = os.path.dirname(os.path.dirname(os.path.abspath(__file__)))
EVIDENCE = os.path.join(ROOT, "evidence")
REPLAYS = os.path.join(EVIDENCE, "replays")
KNOWN = os.path.join(ROOT, "known_findings.json")


def parse_args(prop: str):
    ap = argparse.ArgumentParser(description=f"check for property {prop}")
    ap.add_argument("--tier", default=os.environ.get("VERIF_TIER", "quick"),
                    choices=["quick", "thorough"])
    ap.add_argument("--seed", type=int, default=int(os.environ.get("VERIF_SEED", "0") or 0))
    ap.add_argument("--replay", default=None, help="re-run the cases stored in a replay file")
    ap.add_argument("--jobs", type=int, default=min(16, os.cpu_count() or 4))
    args = ap.parse_args()
    args.base_seed = args.seed
    args.seed += MULTI["offset"]
    return args


# thorough tier: the whole check (generators, replays into the library, trace validation) is run
# for several seeds; the evidence file is written once, for all of them
MULTI = {"offset": 0, "runs": [], "last": True}
THOROUGH_SEEDS = {"C10": 2, "C03": 3, "C07": 3, "C05": 4}
THOROUGH_SEEDS_DEFAULT = 5


def repo_rev() -> dict:
    import canopen
    path = os.path.dirname(os.path.dirname(os.path.abspath(canopen.__file__)))
    if path != "/repo" and os.environ.get("VERIF_DEV_REPO") != path:
        # (VERIF_DEV_REPO: development runs against a scratch checkout; never set by a registered command)
        raise RuntimeError(f"canopen imported from {path}, expected /repo")
    try:
        head = subprocess.run(["git", "-C", "/repo", "rev-parse", "HEAD"], text=True,
                              stdout=subprocess.PIPE).stdout.strip()
        dirty = bool(subprocess.run(["git", "-C", "/repo", "status", "--porcelain", "--", "canopen"],
                                    text=True, stdout=subprocess.PIPE).stdout.strip())
    except OSError:
        head, dirty = "unknown", False
    return {"head": head, "dirty": dirty}


def load_known(prop: str) -> list:
    if not os.path.exists(KNOWN):
        return []
    with open(KNOWN) as fh:
        doc = json.load(fh)
    return [k for k in doc.get("findings", []) if k["property"] == prop and k["status"] == "open"]


class Verdict:
    """Collects violations / known findings of one check run and produces the exit status."""

    def __init__(self, prop: str, args):
        self.prop = prop
        self.args = args
        self.t0 = time.time()
        self.violations = []      # (description, replay payload)
        self.known_hit = {}       # finding id -> count
        self.known = load_known(prop)
        self.notes = []

    def match_known(self, sig: dict):
        """sig: dict describing the failure; a known finding matches when all of its signature
        keys are present in sig with equal values."""
        for k in self.known:
            if all(sig.get(a) == b for a, b in k["signature"].items()):
                return k
        return None

    def report(self, sig: dict, what: str, replay: dict):
        k = self.match_known(sig)
        if k is not None:
            self.known_hit[k["id"]] = self.known_hit.get(k["id"], 0) + 1
            return False
        self.violations.append((what, sig, replay))
        return True

    def finish(self, level: str, coverage: dict, assumptions: list, extra: dict | None = None) -> int:
        os.makedirs(REPLAYS, exist_ok=True)
        for k in self.known:
            if k["id"] in self.known_hit:
                print(f"KNOWN-FINDING: property={self.prop} {k['what']} "
                      f"[{k['id']}, {self.known_hit[k['id']]} occurrence(s) this run]")
        groups = {}
        for what, sig, replay in self.violations:
            key = json.dumps(sig, sort_keys=True, default=str)
            groups.setdefault(key, []).append((what, sig, replay))
        for n, (key, items) in enumerate(list(groups.items())[:25]):
            what, sig, replay = items[0]
            tag = f"s{self.args.seed}-" if MULTI["offset"] else ""
            path = os.path.join(REPLAYS, f"{self.prop}-{tag}{n}.json")
            with open(path, "w") as fh:
                json.dump({"property": self.prop, "what": what, "signature": sig,
                           "occurrences": len(items),
                           "repo": repo_rev(), "seed": self.args.seed, "tier": self.args.tier,
                           "rerun": f"cd {ROOT} && /venv/bin/python -m checks.{self.prop.lower()} "
                                    f"--replay {path}",
                           **replay}, fh, indent=1, default=str)
            print(f"VIOLATION property={self.prop} replay={path}")
            print(f"  [{len(items)}x] signature={key}")
            print(f"  {what[:600]}")
        if len(groups) > 25:
            print(f"  ... and {len(groups) - 25} more distinct violation signatures")
        ev = {
            "property_id": self.prop,
            "tier": self.args.tier,
            "seed": self.args.seed,
            "level": level,
            "coverage": coverage,
            "assumptions": assumptions,
            "wall_s": round(time.time() - self.t0, 2),
            "violations": len(self.violations),
            "known_findings_matched": self.known_hit,
            "repo": repo_rev(),
            "notes": self.notes,
        }
        if extra:
            ev.update(extra)
        MULTI["runs"].append({"seed": self.args.seed, "wall_s": ev["wall_s"], "violations": len(self.violations),
                              "coverage_counts": {k: v for k, v in coverage.items() if isinstance(v, int) and not isinstance(v, bool)}})
        if len(MULTI["runs"]) > 1:
            # evidence for the whole multi-seed run: counts are sums over the seeds (the exhaustive model
            # run is the same for every seed: its states / transitions are reported once)
            once = {"states", "transitions", "model_scenarios", "statusword_table_rows", "obligations", "discharged"}
            cov = dict(coverage)
            for k in list(cov):
                if isinstance(cov[k], int) and not isinstance(cov[k], bool) and k not in once:
                    vals = [r["coverage_counts"].get(k, 0) for r in MULTI["runs"]]
                    # "distinct" counts: the seeds share their hand-made cases, so do not add them up
                    cov[k] = max(vals) if ("distinct" in k or "covered" in k) else sum(vals)
            cov["seeds_run"] = [r["seed"] for r in MULTI["runs"]]
            ev["coverage"] = cov
            ev["seed"] = getattr(self.args, "base_seed", self.args.seed)
            ev["wall_s"] = round(sum(r["wall_s"] for r in MULTI["runs"]), 2)
            ev["violations"] = sum(r["violations"] for r in MULTI["runs"])
            ev["per_seed"] = MULTI["runs"]
        if not self.args.replay:
            os.makedirs(EVIDENCE, exist_ok=True)
            tmp = os.path.join(EVIDENCE, f".{self.prop}.json.tmp")
            with open(tmp, "w") as fh:
                json.dump(ev, fh, indent=1, default=str)
            os.replace(tmp, os.path.join(EVIDENCE, f"{self.prop}.json"))
        status = 1 if self.violations else 0
        print(f"{self.prop}: {'VIOLATED' if status else 'held'} on everything explored "
              f"({ev['wall_s']} s, tier {self.args.tier}, seed {self.args.seed})")
        return status


def main_wrapper(fn):
    """Run a check's main(); machinery failures exit 2, never 1."""
    try:
        argv = sys.argv[1:]
        thorough = any(a == "thorough" or a.endswith("=thorough") for a in argv) and "--replay" not in argv
        if not thorough:
            sys.exit(fn())
        prop = os.path.basename(sys.modules[fn.__module__].__file__)[:-3].upper() if fn.__module__ in sys.modules else ""
        reps = int(os.environ.get("VERIF_THOROUGH_SEEDS") or THOROUGH_SEEDS.get(prop, THOROUGH_SEEDS_DEFAULT))
        worst = 0
        for r in range(reps):
            MULTI["offset"] = 1000 * r
            worst = max(worst, fn() or 0)
        sys.exit(worst)
    except SystemExit:
        raise
    except BaseException as exc:  # noqa
        import traceback
        traceback.print_exc()
        print(f"MACHINERY-FAILURE: {type(exc).__name__}: {exc}")
        sys.exit(2)


def B(data) -> list:
    """bytes-like -> JSON list of ints"""
    return list(bytes(data))
