"""Shared plumbing of the checks: evidence files, known findings, verdict lines, replay files."""
from __future__ import annotations

import argparse
import json
import os
import subprocess
import sys
import time

ROOT = os.path.dirname(os.path.dirname(os.path.abspath(__file__)))
EVIDENCE = os.path.join(ROOT, "evidence")
REPLAYS = os.path.join(EVIDENCE, "replays")
KNOWN = os.path.join(ROOT, "known_findings.json")


def parse_args(prop: str):
    ap = argparse.ArgumentParser(description=f"check for property {prop}")
    ap.add_argument("--tier", default=os.environ.get("VERIF_TIER", "quick"),
                    choices=["quick", "thorough"])
    ap.add_argument("--seed", type=int, default=int(os.environ.get("VERIF_SEED", "0") or 0))
    ap.add_argument("--replay", default=None, help="re-run the cases stored in a replay file")
    ap.add_argument("--jobs", type=int, default=min(16, os.cpu_count() or 4))
    return ap.parse_args()


def repo_rev() -> dict:
    import canopen
    path = os.path.dirname(os.path.dirname(os.path.abspath(canopen.__file__)))
    if path != "/repo" and os.environ.get("VERIF_DEV_REPO") != path:
        # (VERIF_DEV_REPO: development runs against a scratch checkout; never set by a registered command)
        raise RuntimeError(f"canopen imported from {path}, expected /repo")
    try:
        head = subprocess.run(["git", "-C", "/repo", "rev-parse", "HEAD"], text=True,
                              stdout=subprocess.PIPE).stdout.strip()
        dirty = bool(subprocess.run(["git", "-C", "/repo", "status", "--porcelain", "--", "canopen"],
                                    text=True, stdout=subprocess.PIPE).stdout.strip())
    except OSError:
        head, dirty = "unknown", False
    return {"head": head, "dirty": dirty}


def load_known(prop: str) -> list:
    if not os.path.exists(KNOWN):
        return []
    with open(KNOWN) as fh:
        doc = json.load(fh)
    return [k for k in doc.get("findings", []) if k["property"] == prop and k["status"] == "open"]


class Verdict:
    """Collects violations / known findings of one check run and produces the exit status."""

    def __init__(self, prop: str, args):
        self.prop = prop
        self.args = args
        self.t0 = time.time()
        self.violations = []      # (description, replay payload)
        self.known_hit = {}       # finding id -> count
        self.known = load_known(prop)
        self.notes = []

    def match_known(self, sig: dict):
        """sig: dict describing the failure; a known finding matches when all of its signature
        keys are present in sig with equal values."""
        for k in self.known:
            if all(sig.get(a) == b for a, b in k["signature"].items()):
                return k
        return None

    def report(self, sig: dict, what: str, replay: dict):
        k = self.match_known(sig)
        if k is not None:
            self.known_hit[k["id"]] = self.known_hit.get(k["id"], 0) + 1
            return False
        self.violations.append((what, sig, replay))
        return True

    def finish(self, level: str, coverage: dict, assumptions: list, extra: dict | None = None) -> int:
        os.makedirs(REPLAYS, exist_ok=True)
        for k in self.known:
            if k["id"] in self.known_hit:
                print(f"KNOWN-FINDING: property={self.prop} {k['what']} "
                      f"[{k['id']}, {self.known_hit[k['id']]} occurrence(s) this run]")
        groups = {}
        for what, sig, replay in self.violations:
            key = json.dumps(sig, sort_keys=True, default=str)
            groups.setdefault(key, []).append((what, sig, replay))
        for n, (key, items) in enumerate(list(groups.items())[:25]):
            what, sig, replay = items[0]
            path = os.path.join(REPLAYS, f"{self.prop}-{n}.json")
            with open(path, "w") as fh:
                json.dump({"property": self.prop, "what": what, "signature": sig,
                           "occurrences": len(items),
                           "repo": repo_rev(), "seed": self.args.seed, "tier": self.args.tier,
                           "rerun": f"cd {ROOT} && /venv/bin/python -m checks.{self.prop.lower()} "
                                    f"--replay {path}",
                           **replay}, fh, indent=1, default=str)
            print(f"VIOLATION property={self.prop} replay={path}")
            print(f"  [{len(items)}x] signature={key}")
            print(f"  {what[:600]}")
        if len(groups) > 25:
            print(f"  ... and {len(groups) - 25} more distinct violation signatures")
        ev = {
            "property_id": self.prop,
            "tier": self.args.tier,
            "seed": self.args.seed,
            "level": level,
            "coverage": coverage,
            "assumptions": assumptions,
            "wall_s": round(time.time() - self.t0, 2),
            "violations": len(self.violations),
            "known_findings_matched": self.known_hit,
            "repo": repo_rev(),
            "notes": self.notes,
        }
        if extra:
            ev.update(extra)
        if not self.args.replay:
            os.makedirs(EVIDENCE, exist_ok=True)
            tmp = os.path.join(EVIDENCE, f".{self.prop}.json.tmp")
            with open(tmp, "w") as fh:
                json.dump(ev, fh, indent=1, default=str)
            os.replace(tmp, os.path.join(EVIDENCE, f"{self.prop}.json"))
        status = 1 if self.violations else 0
        print(f"{self.prop}: {'VIOLATED' if status else 'held'} on everything explored "
              f"({ev['wall_s']} s, tier {self.args.tier}, seed {self.args.seed})")
        return status


def main_wrapper(fn):
    """Run a check's main(); machinery failures exit 2, never 1."""
    try:
        sys.exit(fn())
    except SystemExit:
        raise
    except BaseException as exc:  # noqa
        import traceback
        traceback.print_exc()
        print(f"MACHINERY-FAILURE: {type(exc).__name__}: {exc}")
        sys.exit(2)


def B(data) -> list:
    """bytes-like -> JSON list of ints"""
    return list(bytes(data))
