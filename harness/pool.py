"""Worker-process pool with a hard per-case watchdog.

Implementation calls into canopen can spin forever (io.BufferedWriter.flush on a raw stream that
returns 0), so every driver runs its cases in child processes.  A case that exceeds its budget is
reported as {"hang": True} and the worker is killed and respawned for the remaining cases.
"""
from __future__ import annotations

import importlib
import multiprocessing as mp
import os
import signal
import time
import traceback


def _resolve(path):
    mod, fn = path.split(":")
    return getattr(importlib.import_module(mod), fn)


MEM_LIMIT = 6 << 30     # address-space cap per worker: a runaway allocation becomes MemoryError


def _worker(fn_path, items, conn):
    try:
        try:
            import resource
            resource.setrlimit(resource.RLIMIT_AS, (MEM_LIMIT, MEM_LIMIT))
        except Exception:  # noqa
            pass
        fn = _resolve(fn_path)
        _cov = _cov_start()
        for idx, case in items:
            conn.send(("start", idx, None))
            try:
                res = fn(case)
            except MemoryError:
                # the library call under test allocated without bound: same verdict as a hang
                res = {"hang": True, "died": False, "oom": True}
            except BaseException as exc:  # driver bug: report, do not hide
                res = {"driver_error": f"{type(exc).__name__}: {exc}",
                       "tb": traceback.format_exc()[-2000:]}
            conn.send(("done", idx, res))
        _cov_dump(_cov)
        conn.send(("end", -1, None))
    finally:
        conn.close()


def _cov_start():
    """VERIF_COV=<dir>: record which lines of the library the drivers execute (tools/cov.py reads the
    dumps; used to find behaviour no check touches, never by a registered command)."""
    d = os.environ.get("VERIF_COV")
    if not d:
        return None
    import sys
    import threading
    seen = set()

    def tracer(frame, event, arg):
        fn = frame.f_code.co_filename
        if "/canopen/" not in fn:
            return None
        if event == "line" or event == "call":
            seen.add((fn, frame.f_lineno))
        return tracer
    sys.settrace(tracer)
    threading.settrace(tracer)
    return d, seen


def _cov_dump(cov):
    if not cov:
        return
    import json
    import sys
    sys.settrace(None)
    d, seen = cov
    os.makedirs(d, exist_ok=True)
    with open(os.path.join(d, f"{os.getpid()}-{time.time_ns()}.json"), "w") as fh:
        json.dump(sorted(seen), fh)


class DriverError(RuntimeError):
    pass


def run_cases(fn_path: str, cases: list, jobs: int = 12, timeout: float = 20.0, _confirming: bool = False) -> list:
    """Run fn(case) for every case in child processes; returns the results in order.
    A case that did not return within the time limit (or whose worker died) is run once more, alone and
    with four times the limit, before it is reported as {"hang": True}: on a machine under heavy load a
    slow case must not be taken for a call that never returns (a genuine endless loop hangs again)."""
    n = len(cases)
    results = [None] * n
    if n == 0:
        return results
    jobs = max(1, min(jobs, n))
    ctx = mp.get_context("fork")
    # interleaved static partition keeps the chunks balanced
    parts = [[(i, cases[i]) for i in range(w, n, jobs)] for w in range(jobs)]
    workers = []

    def spawn(items):
        parent, child = ctx.Pipe(duplex=False)
        p = ctx.Process(target=_worker, args=(fn_path, items, child), daemon=True)
        p.start()
        child.close()
        return {"p": p, "conn": parent, "items": items, "cur": None, "t0": time.time(),
                "done": 0}

    for items in parts:
        workers.append(spawn(items))
    active = list(workers)
    hangs = [0]
    while active:
        progressed = False
        for w in list(active):
            try:
                while w["conn"].poll(0):
                    kind, idx, res = w["conn"].recv()
                    progressed = True
                    if kind == "start":
                        w["cur"], w["t0"] = idx, time.time()
                    elif kind == "done":
                        results[idx] = res
                        w["cur"] = None
                        w["done"] += 1
                    elif kind == "end":
                        w["p"].join(5)
                        active.remove(w)
                        break
            except (EOFError, OSError):
                # worker died
                if w in active:
                    _restart(w, results, active, spawn, died=True)
                continue
            # once several cases have hung the tree is broken anyway: do not spend the full budget on
            # each of the remaining ones
            budget = timeout if hangs[0] < 8 else min(timeout, 4.0)
            if w in active and w["cur"] is not None and time.time() - w["t0"] > budget:
                hangs[0] += 1
                _restart(w, results, active, spawn, died=False)
        if not progressed:
            time.sleep(0.01)
    if not _confirming:
        confirmed = 0
        for i, r in enumerate(results):
            if isinstance(r, dict) and r.get("hang") and confirmed < 3:
                # (three confirmed hangs: the tree is broken, the remaining ones are not re-run)
                again = run_cases(fn_path, [cases[i]], jobs=1, timeout=timeout * 4, _confirming=True)[0]
                if isinstance(again, dict) and again.get("hang"):
                    confirmed += 1
                    r["confirmed"] = True
                else:
                    results[i] = again
    for i, r in enumerate(results):
        if r is None:
            raise DriverError(f"case {i} produced no result")
        if isinstance(r, dict) and "driver_error" in r:
            raise DriverError(f"driver failed on case {i}: {r['driver_error']}\n{r.get('tb')}")
    return results


def _restart(w, results, active, spawn, died):
    try:
        os.kill(w["p"].pid, signal.SIGKILL)
    except OSError:
        pass
    w["p"].join(5)
    cur = w["cur"]
    items = w["items"]
    pos = w["done"]
    if cur is not None:
        results[cur] = {"hang": True, "died": died}
        pos += 1
    elif died:
        # died between cases: mark the next one as a crash of the driver
        if pos < len(items):
            results[items[pos][0]] = {"driver_error": "worker died without a result", "tb": ""}
            pos += 1
    active.remove(w)
    rest = items[pos:]
    if rest:
        nw = spawn(rest)
        active.append(nw)
