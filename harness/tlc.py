"""Thin runner around TLC (tla2tools 1.8) used by every check.

Three uses:
  * model_check(): exhaustive / simulate run of an MC_*.tla configuration, returns statistics
    and whether an invariant / property / assumption was violated;
  * validate_traces(): batch trace validation (leg C) -- a list of traces (each a list of JSON
    events) is written to a file, a Trace_*.tla specification consumes them, and the list of
    rejected traces (with the index of the first event that could not be matched and the
    specification state of the longest matched prefix) is returned;
  * generate(): runs a Gen_* configuration and returns the JSON values the specification printed
    with PrintT(<<"BEH", ToJson(x)>>)  (leg B: TLC generates scenarios for the real code).

Exit-code convention of the checks: machinery failures raise TlcError (-> exit 2).
"""
from __future__ import annotations

import json
import os
import re
import shutil
import subprocess
import tempfile
import time
from concurrent.futures import ThreadPoolExecutor
from dataclasses import dataclass, field

SPEC_DIR = os.path.join(os.path.dirname(os.path.dirname(os.path.abspath(__file__))), "spec")
JAR = "/opt/veriftools/tla/tla2tools.jar:/opt/veriftools/tla/CommunityModules-deps.jar"


class TlcError(RuntimeError):
    """TLC could not be run or produced output we cannot interpret (machinery failure)."""


@dataclass
class TlcResult:
    ok: bool                      # no invariant/property/assumption violation, no error
    violated: str | None          # name of the violated invariant/property (if any)
    generated: int = 0
    distinct: int = 0
    depth: int = 0
    wall_s: float = 0.0
    stdout: str = ""
    coverage: dict = field(default_factory=dict)
    printed: list = field(default_factory=list)


_STATS = re.compile(r"(\d+) states generated, (\d+) distinct states found")
_DEPTH = re.compile(r"The depth of the complete state graph search is (\d+)")
_VIOL = re.compile(r"Invariant (\S+) is violated|Temporal properties were violated|"
                   r"Action property (\S+) is violated|Assumption .* is false|"
                   r"Deadlock reached|The postcondition .* is violated|"
                   r"Error: The behavior up to this point is")


def _java_cmd(module, cfg, workers, extra, heap, tmpdir=None):
    # many single-worker JVMs run side by side during trace validation: a parallel collector with
    # 16 GC threads each makes them thrash, so small runs use the serial collector
    gc = "-XX:+UseSerialGC" if str(workers) == "1" else "-XX:+UseParallelGC"
    return ["java", gc, "-Xss64m", "-XX:TieredStopAtLevel=1" if str(workers) == "1" else "-XX:+TieredCompilation",
            f"-Xmx{heap}", *([f"-Djava.io.tmpdir={tmpdir}"] if tmpdir else []), "-cp", JAR, "tlc2.TLC",
            "-config", cfg, "-workers", str(workers), "-noGenerateSpecTE", *extra, module]


def run_tlc(module: str, cfg: str | None = None, workers: int | str = "auto",
            env: dict | None = None, timeout: int = 1800, extra: list | None = None,
            heap: str = "6g", allow_violation: bool = True) -> TlcResult:
    """Run TLC on spec/<module>.tla with spec/<cfg>. Returns a TlcResult."""
    cfg = cfg or module + ".cfg"
    meta = tempfile.mkdtemp(prefix="tlcmeta_")
    e = dict(os.environ)
    e.pop("JAVA_TOOL_OPTIONS", None)
    if env:
        e.update(env)
    cmd = _java_cmd(module, cfg, workers, ["-metadir", meta] + list(extra or []), heap, tmpdir=meta)
    t0 = time.time()
    try:
        p = subprocess.run(cmd, cwd=SPEC_DIR, env=e, stdout=subprocess.PIPE,
                           stderr=subprocess.STDOUT, timeout=timeout, text=True)
    except subprocess.TimeoutExpired as exc:
        raise TlcError(f"TLC timed out after {timeout}s on {module}/{cfg}") from exc
    finally:
        shutil.rmtree(meta, ignore_errors=True)
    out = p.stdout
    res = TlcResult(ok=False, violated=None, wall_s=time.time() - t0, stdout=out)
    for m in _STATS.finditer(out):
        res.generated, res.distinct = int(m.group(1)), int(m.group(2))
    m = _DEPTH.search(out)
    if m:
        res.depth = int(m.group(1))
    res.printed = parse_printed(out)
    v = _VIOL.search(out)
    if v:
        res.violated = v.group(1) or v.group(2) or v.group(0)
    eval_err = re.search(r"StackOverflowError|TLC threw an unexpected exception|Attempted to |"
                         r"was not in the domain|evaluating the expression|"
                         r"The exception was a|is not a valid|non-enumerable", out)
    if eval_err:
        i = out.find("Error:")
        raise TlcError(f"TLC evaluation error on {module}/{cfg}: {out[max(0, i):i + 1500]}")
    sem_err = ("Semantic error" in out or "Parsing or semantic analysis failed" in out
               or "***Parse Error***" in out or "TLC threw an unexpected exception" in out
               or "Error: TLC" in out and v is None)
    if sem_err or (p.returncode != 0 and res.violated is None):
        raise TlcError(f"TLC failed on {module}/{cfg} (rc={p.returncode}):\n{out[-4000:]}")
    res.ok = res.violated is None
    res.coverage = parse_coverage(out)
    return res


_COV = re.compile(r"^<(\w+) line (\d+), col \d+ to line \d+, col \d+ of module (\w+)>: (\d+):(\d+)",
                  re.M)


def parse_coverage(out: str) -> dict:
    """action name -> (distinct states found, states generated) from a `-coverage 1` run."""
    cov = {}
    for m in _COV.finditer(out):
        name = m.group(1)
        a, b = int(m.group(4)), int(m.group(5))
        if name in cov:
            cov[name] = (cov[name][0] + a, cov[name][1] + b)
        else:
            cov[name] = (a, b)
    return cov


_OPEN = re.compile(r'<<\s*"[A-Z][A-Z-]+"')


def parse_printed(out: str) -> list:
    """Collect the tuples printed with PrintT(<<"TAG", ...>>) -- returned as raw strings
    (bracket matched so that multi-line values and interleaved worker output survive)."""
    res = []
    i = 0
    n = len(out)
    while True:
        mm = _OPEN.search(out, i)
        if mm is None:
            break
        j = mm.start()
        depth = 0
        k = j
        instr = False
        while k < n:
            c = out[k]
            if instr:
                if c == "\\":
                    k += 1
                elif c == '"':
                    instr = False
            elif c == '"':
                instr = True
            elif out.startswith("<<", k):
                depth += 1
                k += 1
            elif out.startswith(">>", k):
                depth -= 1
                k += 1
                if depth == 0:
                    break
            k += 1
        res.append(out[j:k + 1])
        i = k + 1
    return res


def tla_unquote(s: str) -> str:
    """Undo TLC's string printing for a PrintT'ed string value (used for ToJson payloads)."""
    assert s.startswith('"') and s.endswith('"'), s[:40]
    body = s[1:-1]
    return body.replace('\\"', '"').replace("\\\\", "\\")


def printed_with_tag(res: TlcResult, tag: str) -> list[str]:
    out = []
    for p in res.printed:
        m = re.match(r'<<\s*"%s",\s*' % re.escape(tag), p)
        if m:
            out.append(p[m.end():-2])
    return out


def simulate(module: str, cfg: str, num: int, depth: int, seed: int = 0, timeout: int = 600) -> TlcResult:
    """random walks of a Gen_* configuration (leg B: TLC-generated behaviours)"""
    return run_tlc(module, cfg, workers=1, timeout=timeout,
                   extra=["-simulate", f"num={num}", "-depth", str(depth), "-seed", str(seed + 1)])


def beh_json(res: TlcResult, tag: str = "BEH") -> list:
    """Values printed as PrintT(<<tag, ToJson(v)>>), decoded."""
    vals = []
    for raw in printed_with_tag(res, tag):
        vals.append(json.loads(tla_unquote(raw.strip())))
    return vals


# ----------------------------------------------------------------------------------------------
# batch trace validation
# ----------------------------------------------------------------------------------------------
@dataclass
class Reject:
    index: int          # index into the list of traces given to validate_traces (0-based)
    step: int           # 0-based index of the first event that could not be matched
    why: str            # clause of the trace specification that failed
    state: str          # specification state of the longest matched prefix (TLC text), may be ""
    event: object = None


@dataclass
class Validation:
    traces: int
    events: int
    states: int
    rejects: list
    wall_s: float
    stdout_tail: str = ""


_REJ = re.compile(r'<<\s*"REJECT",\s*(\d+),\s*(\d+),\s*"([^"]*)",\s*(.*)>>$', re.S)


MAX_CHUNK_BYTES = 24 << 20
# numbers TLC's JSON reader cannot take (fractions, exponents, NaN / Infinity, integers beyond 32 bits)
# become one integer no generated value ever equals (a string would make TLC's "=" fail on the type): the
# specification then rejects the event instead of TLC failing on the file.
# The drivers log such quantities as limb / hex records on purpose; a float or a huge integer in a trace is
# always something the library produced unexpectedly.
BADNUM_SENTINEL = "-2147483647"
_BADNUM = re.compile(r'"(?:[^"\\]|\\.)*"|-?\d+\.\d+(?:[eE][+-]?\d+)?|-?\d+[eE][+-]?\d+|NaN|-?Infinity|-?\d{10,}')


def _json_text(obj) -> str:
    txt = json.dumps(obj, separators=(",", ":"))

    def fix(m):
        t = m.group(0)
        if t[0] == '"':          # a JSON string: left alone (the alternation consumes it as a whole)
            return t
        if t.lstrip("-").isdigit() and -(1 << 31) < int(t) < (1 << 31):
            return t
        return BADNUM_SENTINEL
    return _BADNUM.sub(fix, txt)


def _validate_one(module, cfg, traces, offset, env, timeout, heap):
    fd, path = tempfile.mkstemp(prefix="traces_", suffix=".json")
    with os.fdopen(fd, "w") as fh:
        fh.write(_json_text(traces))
    try:
        e = {"TRACE_FILE": path}
        if env:
            e.update(env)
        r = run_tlc(module, cfg, workers=1, env=e, timeout=timeout, heap=heap)
    finally:
        os.unlink(path)
    rejects = []
    seen = set()
    for raw in r.printed:
        m = _REJ.match(raw)
        if not m:
            continue
        t, l = int(m.group(1)), int(m.group(2))
        if t in seen:
            continue
        seen.add(t)
        st = re.sub(r"\s+", " ", m.group(4)).strip()
        ev = traces[t - 1]["ev"]
        rejects.append(Reject(index=offset + t - 1, step=l - 1, why=m.group(3), state=st,
                              event=ev[l - 1] if l - 1 < len(ev) else None))
    if r.violated and not rejects:
        raise TlcError(f"trace validation of {module} reported a violation without a REJECT "
                       f"line:\n{r.stdout[-3000:]}")
    if "TRACES-CHECKED" not in r.stdout:
        raise TlcError(f"trace validation of {module} did not reach its postcondition:\n"
                       f"{r.stdout[-3000:]}")
    return r, rejects


def validate_traces(module: str, traces: list, cfg: str | None = None, jobs: int = 8,
                    batch: int | None = None, env: dict | None = None, timeout: int = 1800,
                    heap: str = "3g") -> Validation:
    """traces: list of {"ev": [event, ...], ...}.  Returns a Validation with the rejected traces."""
    t0 = time.time()
    n = len(traces)
    # measured: 4..8 concurrent single-worker TLC JVMs are fastest on 16 cores (16 thrash)
    jobs = max(1, min(jobs, 6))
    if n == 0:
        return Validation(0, 0, 0, [], 0.0)
    if batch is None:
        # balance by size of the JSON text, and keep every chunk small enough for one JVM
        # (a 100 MB chunk made TLC's JSON reader fail in the thorough tier of C10)
        sizes = [len(json.dumps(t, separators=(",", ":"), default=str)) for t in traces]
        per = max(1, min(sum(sizes) // jobs + 1, MAX_CHUNK_BYTES))
        chunks, cur, cnt, start = [], [], 0, 0
        for i, t in enumerate(traces):
            cur.append(t)
            cnt += sizes[i]
            if cnt >= per:
                chunks.append((start, cur))
                cur, cnt, start = [], 0, i + 1
        if cur:
            chunks.append((start, cur))
    else:
        chunks = [(i, traces[i:i + batch]) for i in range(0, n, batch)]
    rejects, states = [], 0
    tail = ""
    with ThreadPoolExecutor(max_workers=jobs) as ex:
        futs = [ex.submit(_validate_one, module, cfg, ch, off, env, timeout, heap)
                for off, ch in chunks]
        for f in futs:
            r, rej = f.result()
            states += r.distinct
            rejects.extend(rej)
            tail = r.stdout[-1500:]
    return Validation(traces=n, events=sum(len(t["ev"]) for t in traces), states=states,
                      rejects=sorted(rejects, key=lambda x: x.index), wall_s=time.time() - t0,
                      stdout_tail=tail)


_BADROW = re.compile(r'<<\s*"BADROW",\s*(\d+),\s*"([^"]*)"\s*>>')


def _table_one(module, rows, offset, timeout, heap):
    fd, path = tempfile.mkstemp(prefix="rows_", suffix=".json")
    with os.fdopen(fd, "w") as fh:
        fh.write(_json_text(rows))
    try:
        r = run_tlc(module, "Table.cfg", workers=1, env={"TRACE_FILE": path}, timeout=timeout,
                    heap=heap)
    finally:
        os.unlink(path)
    if "TABLE-CHECKED" not in r.stdout:
        raise TlcError(f"table validation of {module} did not complete:\n{r.stdout[-3000:]}")
    bad = []
    for raw in r.printed:
        m = _BADROW.match(re.sub(r"\s+", " ", raw))
        if m:
            bad.append((offset + int(m.group(1)) - 1, m.group(2)))
    return bad


def check_table(module: str, rows: list, jobs: int = 6, timeout: int = 1800, heap: str = "3g"):
    """rows judged one by one by a Table_* module; returns [(row index, reason), ...]."""
    t0 = time.time()
    jobs = max(1, min(jobs, 6, len(rows)))
    per = (len(rows) + jobs - 1) // jobs
    chunks = [(i, rows[i:i + per]) for i in range(0, len(rows), per)]
    bad = []
    with ThreadPoolExecutor(max_workers=jobs) as ex:
        for f in [ex.submit(_table_one, module, ch, off, timeout, heap) for off, ch in chunks]:
            bad.extend(f.result())
    return sorted(bad), time.time() - t0


def sany(module: str) -> None:
    p = subprocess.run(["java", "-cp", JAR, "tla2sany.SANY", module + ".tla"], cwd=SPEC_DIR,
                       stdout=subprocess.PIPE, stderr=subprocess.STDOUT, text=True, timeout=300)
    if p.returncode != 0 or "Semantic errors" in p.stdout or "Parse Error" in p.stdout \
            or "Fatal errors" in p.stdout:
        raise TlcError(f"SANY rejected {module}:\n{p.stdout[-3000:]}")
