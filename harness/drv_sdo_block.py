"""Driver: the real BlockDownloadStream / BlockUploadStream against an (untrusted) reference block
server on an inline FakeBus with virtual time.  Traces for Trace_SdoBlock (C12, C13, C07 block)."""
from __future__ import annotations

import binascii
import struct

from harness import bus as hbus
from harness.bus import FakeBus
from harness.common import B

NODE = 2


class RefBlockServer:
    """CiA 301 block download / upload server (one object)."""

    def __init__(self, value, blks, crc_supported=True, size_ind=True, size_check=True):
        self.size_check = size_check
        self.value = bytes(value)
        self.blks = list(blks) or [127]
        self.bi = 0
        self.crc_supported = crc_supported
        self.size_ind = size_ind
        self.ph = "idle"
        self.committed = None

    def next_blk(self):
        b = self.blks[self.bi % len(self.blks)]
        self.bi += 1
        return b

    # -- download ---------------------------------------------------------------------------------
    def dl_init(self, q):
        self.idx, self.sub = struct.unpack_from("<HB", q, 1)
        self.crc_on = bool(q[0] & 4) and self.crc_supported
        self.size = struct.unpack_from("<L", q, 4)[0] if q[0] & 2 else None
        self.blk = self.next_blk()
        self.got = 0
        self.seen = 0
        self.acc = b""
        self.fin = False
        self.ph = "dlblk"
        return struct.pack("<BHBB", 0xA0 | (4 if self.crc_on else 0), self.idx, self.sub, self.blk) + bytes(3)

    def dl_seg(self, q):
        """returns an ack frame or None"""
        seq, c = q[0] & 0x7F, q[0] >> 7
        self.seen += 1
        if not self.fin and seq == self.got + 1:
            self.got += 1
            self.acc += q[1:8]
            if c:
                self.fin = True
        if seq == self.blk or c:
            return self.dl_ack()
        return None

    def dl_ack(self):
        a = self.got
        complete = self.fin
        self.blk = self.next_blk()
        self.got = 0
        self.seen = 0
        if complete:
            self.ph = "dlend"
        return bytes([0xA2, a, self.blk]) + bytes(5)

    def dl_idle(self):
        # the client is waiting for an acknowledge although the sub-block's tail (possibly all of
        # it) never arrived: the server's own time-out fires first
        if self.ph == "dlblk":
            return self.dl_ack()
        return None

    def dl_end(self, q):
        n = (q[0] >> 2) & 7
        ok = self.ph == "dlend" and len(self.acc) >= 7 and n <= 6
        v = self.acc[:len(self.acc) - n] if ok else b""
        if ok and self.size_check and self.size is not None and len(v) != self.size:
            ok = False
        if ok and self.crc_on and struct.unpack_from("<H", q, 1)[0] != binascii.crc_hqx(v, 0):
            ok = False
        self.ph = "idle"
        if ok:
            self.committed = v
            return bytes([0xA1]) + bytes(7)
        return struct.pack("<BHBL", 0x80, self.idx, self.sub, 0x05040004)

    # -- upload -----------------------------------------------------------------------------------
    def ul_init(self, q):
        self.idx, self.sub = struct.unpack_from("<HB", q, 1)
        self.crc_on = bool(q[0] & 4) and self.crc_supported
        self.blk = q[4]
        self.base = 0
        self.ph = "ulstart"
        cmd = 0xC0 | (4 if self.crc_on else 0) | (2 if self.size_ind else 0)
        return struct.pack("<BHBL", cmd, self.idx, self.sub, len(self.value) if self.size_ind else 0)

    def ul_block(self):
        """segments of the current sub-block"""
        segs = []
        pos = self.base
        self.sent = 0
        self.sfin = False
        while self.sent < self.blk and not self.sfin:
            chunk = self.value[pos:pos + 7]
            pos += 7
            self.sent += 1
            last = pos >= len(self.value)
            segs.append(bytes([(0x80 if last else 0) | self.sent]) + chunk.ljust(7, b"\0"))
            self.sfin = last
        self.ph = "ulack"
        return segs

    def ul_ack(self, q):
        a, newblk = q[1], q[2]
        if a > self.sent or not 1 <= newblk <= 127:
            self.ph = "idle"
            return "abort"
        complete = self.sfin and a == self.sent
        self.base += 7 * a
        self.blk = newblk
        if complete:
            self.ph = "ulend"
            n = 7 - (len(self.value) - 7 * ((len(self.value) + 6) // 7 - 1))
            crc = binascii.crc_hqx(self.value, 0) if self.crc_on else 0
            return bytes([0xC1 | n << 2]) + struct.pack("<H", crc) + bytes(5)
        return self.ul_block()


def _classify(exc):
    import canopen
    if isinstance(exc, canopen.SdoAbortedError):
        return {"e": "raise", "cls": "abort"}
    if isinstance(exc, canopen.SdoCommunicationError):
        return {"e": "raise", "cls": "comm"}
    return {"e": "raise", "cls": "other", "repr": f"{type(exc).__name__}: {exc}"[:200]}


def run_case(case: dict) -> dict:
    """case: {op: bdl|bul, data|value, size, crc, srvcrc, blks, buffering, chunks,
              lose_seg:[...], lose_ack:[...], lose:[...], flip:[...], wrongcrc, wrongend}"""
    import logging
    import types
    import queue as real_queue
    logging.disable(logging.CRITICAL)
    import canopen
    import canopen.sdo.client as client_mod

    ev = []
    value = bytes(case.get("value", []))
    srv = RefBlockServer(value, case.get("blks", [127]), case.get("srvcrc", True),
                         case.get("size_ind", True), case.get("size_check", True))
    net = canopen.Network()
    cnt = {"seg": 0, "ack": 0, "sseg": 0}
    lose_seg, lose_ack = set(case.get("lose_seg", [])), set(case.get("lose_ack", []))
    lose, flip = set(case.get("lose", [])), set(case.get("flip", []))

    def deliver(frame):
        net.notify(0x580 + NODE, bytearray(frame), 0.0)

    # C07: one disturbance of the k-th frame the server sends during the first call
    fault = dict(case.get("fault") or {})
    fcnt = {"n": 0, "on": bool(fault)}
    STALE = bytes([0x43, 0x34, 0x12, 0x00, 1, 2, 3, 4])      # expedited upload response of another object

    def disturb(frame):
        """-> (kind, frames actually delivered)"""
        if not fcnt["on"]:
            return "none", [frame]
        fcnt["n"] += 1
        if fcnt["n"] != fault["at"]:
            return "none", [frame]
        k = fault["kind"]
        if k == "drop":
            return k, []
        if k == "abort":
            srv.ph = "idle"      # the abort is the server's: it has left the transfer
            return k, [struct.pack("<BHBL", 0x80, case.get("idx", 0x2000), case.get("sub", 0), 0x08000000)]
        if k == "cs":
            return k, [bytes([frame[0] ^ 0x40]) + frame[1:]]
        if k == "mux":
            return k, [frame[:1] + bytes([frame[1] ^ 0xFF]) + frame[2:]]
        if k == "muxsub":
            return k, [frame[:3] + bytes([frame[3] ^ 0x01]) + frame[4:]]
        if k == "dup":
            return k, [frame, frame]
        if k == "stale":
            return k, [STALE, frame]
        if k == "stale_after":
            return k, [frame, STALE]
        raise ValueError(k)

    def emit_ack(ack):
        cnt["ack"] += 1
        cnt["since_ack"] = 0
        lost = cnt["ack"] in lose_ack and not cnt.get("quiet")
        kind, frames = ("none", [ack]) if lost else disturb(ack)
        # for the server model the acknowledge is "lost" when the client did not get it intact
        ev.append({"e": "ack", "r": B(ack), "lost": lost or kind in ("drop", "abort", "cs"), "kind": kind,
                   "dlv": [] if lost else [B(f) for f in frames]})
        if not lost:
            for f in frames:
                deliver(f)

    def emit_segs(segs):
        for s in segs:
            cnt["sseg"] += 1
            how, dlv = "ok", s
            if cnt.get("quiet"):
                pass
            elif cnt["sseg"] in lose:
                how, dlv = "lost", None
            elif cnt["sseg"] in flip:
                how = "flip"
                k = 1 + (cnt["sseg"] * 5) % 7
                dlv = s[:k] + bytes([s[k] ^ (1 << (cnt["sseg"] % 8))]) + s[k + 1:]
            kind, frames = ("none", [dlv]) if dlv is None or how != "ok" else disturb(dlv)
            if kind in ("drop", "abort", "cs"):
                how = "lost"            # effect on the segment stream as the model sees it
            ev.append({"e": "sseg", "r": B(s), "how": how, "dlv": B(dlv) if dlv else [], "kind": kind,
                       "frames": [B(f) for f in frames if f is not None]})
            for f in frames:
                if f is not None:
                    deliver(f)

    def emit_end(fr):
        how, dlv = "ok", fr
        if cnt.get("quiet"):
            pass
        elif case.get("wrongcrc"):
            how, dlv = "wrongcrc", fr[:1] + bytes([fr[1] ^ 0x5A]) + fr[2:]
        elif case.get("wrongend_ss") is not None:
            # everything of the end frame intact (unused-byte count, checksum) but the subcommand
            how, dlv = "wrongend", bytes([(fr[0] & 0xFC) | case["wrongend_ss"]]) + fr[1:]
        elif case.get("wrongend"):
            how, dlv = "wrongend", bytes([case["wrongend"]]) + fr[1:]
        kind, frames = disturb(dlv) if how == "ok" else ("none", [dlv])
        if kind in ("drop", "abort", "cs"):
            how = "wrongend" if kind == "cs" else "lost"
        ev.append({"e": "send", "r": B(fr), "how": how, "dlv": B(dlv), "kind": kind, "frames": [B(f) for f in frames]})
        for f in frames:
            deliver(f)

    def on_send(msg):
        if msg.arbitration_id != 0x600 + NODE:
            return
        q = bytes(msg.data)
        if srv.ph == "dlblk":
            if q[0] == 0x80:
                ev.append({"e": "cab", "q": B(q)})
                srv.ph = "idle"
                return
            cnt["seg"] += 1
            cnt["since_ack"] = cnt.get("since_ack", 0) + 1
            lost = cnt["seg"] in lose_seg and not cnt.get("quiet")
            ev.append({"e": "seg", "q": B(q), "lost": lost})
            if not lost:
                ack = srv.dl_seg(q)
                if ack is not None:
                    emit_ack(ack)
            return
        new_init = len(q) == 8 and ((q[0] >> 5 == 5 and q[0] & 3 == 0) or (q[0] >> 5 == 6 and q[0] & 1 == 0))
        if srv.ph in ("ulstart", "ulack", "ulend", "ulblk") and not new_init:
            ev.append({"e": "cq", "q": B(q)})
            if q[0] == 0x80:
                srv.ph = "idle"
            elif srv.ph == "ulstart" and q[0] == 0xA3:
                emit_segs(srv.ul_block())
            elif srv.ph == "ulack" and q[0] == 0xA2:
                r = srv.ul_ack(q)
                if r == "abort":
                    pass
                elif isinstance(r, list):
                    emit_segs(r)
                else:
                    emit_end(r)
            elif srv.ph == "ulend" and q[0] == 0xA1:
                srv.ph = "idle"
            return
        # request / response exchanges
        if q[0] >> 5 == 6 and q[0] & 1 == 0 and len(q) == 8:
            r = [srv.dl_init(q)]
        elif q[0] >> 5 == 6 and q[0] & 1 == 1 and len(q) == 8:
            r = [srv.dl_end(q)]
        elif q[0] >> 5 == 5 and q[0] & 3 == 0 and len(q) == 8:
            r = [srv.ul_init(q)]
        elif q[0] == 0x80:
            srv.ph = "idle"
            r = []
        else:
            r = [struct.pack("<BHBL", 0x80, 0, 0, 0x05040001)]
        kind, frames = "none", list(r)
        if len(r) == 1 and r[0][0] != 0x80:
            kind, frames = disturb(r[0])
        ev.append({"e": "x", "q": B(q), "r": [B(f) for f in r], "dlv": [B(f) for f in frames], "fault": kind})
        for f in frames:
            deliver(f)

    class IdleQueue(hbus.InstantQueue):
        def get(self, block=True, timeout=None):
            if not self.q and cnt.get("since_ack", 0) > 0:
                ack = srv.dl_idle()
                if ack is not None:
                    emit_ack(ack)
            return super().get(block, timeout)

    client_mod.queue = types.SimpleNamespace(Queue=IdleQueue, Empty=real_queue.Empty)
    net.bus = FakeBus(on_send)
    node = canopen.RemoteNode(NODE, canopen.ObjectDictionary())
    net.add_node(node)
    sdo = node.sdo
    idx, sub = case.get("idx", 0x2000), case.get("sub", 0)
    data = bytes(case.get("data", []))
    rounds = (["pre"] if case.get("pre_crc_off") else []) + ["main"] + (["follow"] if case.get("fault") else [])
    for rnd in rounds:
      crc_now = case.get("crc", True)
      if rnd == "pre":
        # an undisturbed transfer of the same kind without CRC on the same client comes first
        crc_now, cnt["quiet"], fcnt["on"] = False, True, False
      elif rnd == "main":
        cnt.update(seg=0, ack=0, sseg=0, quiet=False)
        fcnt["on"] = bool(fault)
      else:
        fcnt["on"] = False      # the follow-up transfer on the same client and server is undisturbed
        if case.get("stale_between"):
            deliver(STALE)
      if case["op"] == "bdl":
          ev.append({"e": "call", "op": "bdl", "idx": idx, "sub": sub, "data": B(data),
                     "size": case.get("size", len(data)), "crc": bool(crc_now),
                     "sizecheck": bool(case.get("size_check", True))})
          try:
              size = case.get("size", len(data))
              fp = sdo.open(idx, sub, "wb", buffering=case.get("buffering", 1024),
                            size=None if size < 0 else size, block_transfer=True,
                            request_crc_support=crc_now)
              try:
                  if case.get("raw_reuse"):
                      # unbuffered stream: the caller feeds 7-byte pieces from ONE reused buffer
                      chunk = bytearray(7)
                      pos = 0
                      while pos < len(data):
                          piece = data[pos:pos + 7]
                          chunk[:len(piece)] = piece
                          w = fp.write(memoryview(chunk)[:len(piece)])
                          pos += w if w else len(piece)
                      for i in range(7):
                          chunk[i] = 0xEE
                  else:
                      pos = 0
                      for n in case.get("chunks") or [len(data)]:
                          fp.write(data[pos:pos + n])
                          pos += n
              finally:
                  fp.close()
              ev.append({"e": "ret", "data": []})
          except Exception as exc:  # noqa
              ev.append(_classify(exc))
      else:
          ev.append({"e": "call", "op": "bul", "idx": idx, "sub": sub, "data": [],
                     "crc": bool(crc_now)})
          try:
              out = b""
              with sdo.open(idx, sub, "rb", buffering=case.get("buffering", 1024), block_transfer=True,
                            request_crc_support=crc_now) as fp:
                  for n in case.get("reads", []):
                      out += fp.read(n) or b""
                  # one read() to the end, as a caller does it (a read() that stops early is the
                  # caller's truncated value, not something a second read() may repair)
                  out += fp.read() or b""
              ev.append({"e": "ret", "data": B(out)})
          except Exception as exc:  # noqa
              ev.append(_classify(exc))
    for i, e in enumerate(ev):
        e["n"] = i + 1
    return {"ev": ev, "value": B(value), "srvcrc": bool(case.get("srvcrc", True))}
