------------------------------ MODULE Trace_Net ------------------------------
(* C10 trace specification: after every API call the projection of Network.subscribers,          *)
(* Network.nodes and NodeScanner.nodes is logged; notify / listener events carry the ordered list *)
(* of callbacks actually invoked (user callbacks and node handlers) with their arguments.        *)
EXTENDS Net, Json, IOUtils

NInit(t) == [subs |-> (LssId :> <<LssCb>>), nodes |-> [i \in {} |-> 0], scan |-> <<>>, per |-> <<>>]
NShow(st) == st

Bad(st, why) == [ok |-> FALSE, why |-> why, st |-> st]
Good(st) == [ok |-> TRUE, why |-> "", st |-> st]

\* logged projection: sequence of <<id, <<cb, ...>>>> for ids with at least one subscriber
SubsMatch(subs, logged) ==
    /\ Len(logged) = Cardinality(DOMAIN subs)
    /\ \A i \in 1..Len(logged) : logged[i][1] \in DOMAIN subs /\ subs[logged[i][1]] = logged[i][2]
NodesMatch(nodes, logged) ==
    /\ Len(logged) = Cardinality(DOMAIN nodes)
    /\ \A i \in 1..Len(logged) : logged[i][1] \in DOMAIN nodes
                                 /\ nodes[logged[i][1]].kind = logged[i][2]
                                 /\ nodes[logged[i][1]].gen = logged[i][3]

Check(st, e, new) ==
    IF ~SubsMatch(new.subs, e.subs) THEN Bad(st, "subscribers differ from the reference multimap after " \o e.e)
    ELSE IF ~NodesMatch(new.nodes, e.nodes) THEN Bad(st, "network.nodes differs after " \o e.e)
    ELSE IF new.scan # e.scan THEN Bad(st, "scanner.nodes differs after " \o e.e)
    ELSE Good(new)

\* raw periodic API: per[h] is what task h was given last; the bus holds exactly one running task per
\* live handle, carrying that id / data (its own copy and the message object) / flags / period
PerMatch(per, logged) ==
    /\ Len(logged) = Len(per)
    /\ \A h \in 1..Len(per) :
         IF per[h].live
         THEN /\ logged[h].n = 1 /\ logged[h].id = per[h].id /\ logged[h].frozen = per[h].d /\ logged[h].cur = per[h].d
              /\ logged[h].rtr = per[h].remote /\ logged[h].ext = Extended(per[h].id) /\ logged[h].period = per[h].period
         ELSE logged[h].n = 0
CheckPer(st, e, new) ==
    IF ~PerMatch(new.per, e.per) THEN Bad(st, "periodic task on the bus is not exactly one running task with the id, data, flags and period given last (" \o e.e \o ")")
    ELSE Check(st, e, new)

Expected(subs, id, d, ts) == [i \in 1..Len(SubsOf(subs, id)) |-> <<SubsOf(subs, id)[i], id, d, ts>>]

NStep(st, e, t) ==
    CASE e.e = "sub" -> Check(st, e, [st EXCEPT !.subs = Subscribe(st.subs, e.id, e.cb)])
      [] e.e = "unsub" ->
           \* unsubscribing something that is not subscribed may raise or not; state unchanged
           IF ~InSeq(SubsOf(st.subs, e.id), e.cb) THEN Check(st, e, st)
           ELSE IF e.raised THEN Bad(st, "unsubscribe of a subscribed callback raised")
           ELSE Check(st, e, [st EXCEPT !.subs = Unsubscribe(st.subs, e.id, e.cb)])
      [] e.e = "unsuball" ->
           IF e.id \notin DOMAIN st.subs THEN Check(st, e, st)
           ELSE IF e.raised THEN Bad(st, "unsubscribe(all) of a subscribed id raised")
           ELSE Check(st, e, [st EXCEPT !.subs = UnsubscribeAll(st.subs, e.id)])
      [] e.e = "add" ->
           LET r == AddNodeX(st.subs, st.nodes, e.kind, e.nid, e.gen, e.extra)
               \* the node that is replaced leaves first; one of its handlers may be gone already
               old == IF e.nid \in DOMAIN st.nodes THEN UnsubUntilMissing(st.subs, AllHandlers(st.nodes[e.nid], e.nid))
                      ELSE [subs |-> st.subs, ok |-> TRUE]
           IN IF ~old.ok
                THEN IF ~e.raised THEN Bad(st, "replacing a node one of whose handlers had been unsubscribed did not raise")
                     ELSE Check(st, e, [st EXCEPT !.subs = old.subs])
              ELSE IF e.raised THEN Bad(st, "adding / replacing a node raised")
              ELSE Check(st, e, [st EXCEPT !.subs = r.subs, !.nodes = r.nodes])
      [] e.e = "addsdo" ->
           IF e.nid \notin DOMAIN st.nodes \/ st.nodes[e.nid].kind # "remote" THEN Bad(st, "HARNESS: add_sdo on absent / local node")
           ELSE IF e.raised THEN Bad(st, "add_sdo raised")
           ELSE LET r == AddSdo(st.subs, st.nodes, e.nid, e.tx) IN
                Check(st, e, [st EXCEPT !.subs = r.subs, !.nodes = r.nodes])
      [] e.e = "remove" ->
           IF e.nid \notin DOMAIN st.nodes THEN Bad(st, "HARNESS: remove of absent node")
           ELSE LET r == RemoveNode(st.subs, st.nodes, e.nid)
                    u == UnsubUntilMissing(st.subs, AllHandlers(st.nodes[e.nid], e.nid))
                IN IF ~u.ok
                     \* the application has unsubscribed one of the node's handlers itself: the removal
                     \* fails there, loudly, and the node stays
                     THEN IF ~e.raised THEN Bad(st, "removing a node one of whose handlers had been unsubscribed did not raise")
                          ELSE Check(st, e, [st EXCEPT !.subs = u.subs])
                   ELSE IF e.raised THEN Bad(st, "removing a node raised")
                   ELSE Check(st, e, [st EXCEPT !.subs = r.subs, !.nodes = r.nodes])
      [] e.e = "notify" ->
           IF e.raised THEN Bad(st, "notify raised")
           ELSE IF e.delivered # Expected(st.subs, e.id, e.d, e.ts)
             THEN Bad(st, "frame was not delivered exactly once, in subscription order, with its id/data/timestamp, to the current subscribers")
           ELSE Check(st, e, [st EXCEPT !.scan = Scan(st.scan, e.id)])
      [] e.e = "listener" ->
           IF e.raised THEN Bad(st, "listener let an exception escape")
           ELSE IF e.err \/ e.rtr
             THEN IF e.delivered # <<>> THEN Bad(st, "error / remote frame was dispatched")
                  ELSE Check(st, e, st)
           ELSE IF e.boom
             THEN \* a raising callback ends the dispatch of this frame (later subscribers and the
                  \* scanner are skipped by the library); only the swallowing is required
                  IF \A i \in 1..Len(e.delivered) : i <= Len(Expected(st.subs, e.id, e.d, e.ts))
                                                   /\ e.delivered[i] = Expected(st.subs, e.id, e.d, e.ts)[i]
                    THEN Good([st EXCEPT !.scan = e.scan])
                    ELSE Bad(st, "listener dispatched to the wrong callbacks")
           ELSE IF e.delivered # Expected(st.subs, e.id, e.d, e.ts)
             THEN Bad(st, "listener did not dispatch the data frame to the current subscribers")
           ELSE Check(st, e, [st EXCEPT !.scan = Scan(st.scan, e.id)])
      [] e.e = "send" ->
           IF e.raised THEN Bad(st, "send_message raised")
           \* (a CAN remote frame has no data field: python-can leaves out whatever payload was handed over)
           ELSE IF e.msg.id # e.id \/ e.msg.d # (IF e.remote THEN <<>> ELSE e.d) \/ e.msg.rtr # e.remote
             THEN Bad(st, "outgoing frame does not carry exactly the given id, data and remote flag")
           ELSE IF e.msg.ext # Extended(e.id)
             THEN Bad(st, "extended frame format not used exactly for ids above 0x7FF")
           ELSE Check(st, e, st)
      [] e.e = "scanreset" -> Check(st, e, [st EXCEPT !.scan = <<>>])
      [] e.e = "pstart" ->
           IF e.h # Len(st.per) + 1 THEN Bad(st, "harness: handle numbering")
           ELSE CheckPer(st, e, [st EXCEPT !.per = Append(st.per, [id |-> e.id, d |-> e.d, remote |-> e.remote, period |-> e.period, live |-> TRUE])])
      [] e.e = "pupdate" -> CheckPer(st, e, [st EXCEPT !.per[e.h].d = e.d])
      [] e.e = "pstop" -> CheckPer(st, e, [st EXCEPT !.per[e.h].live = FALSE])
      [] OTHER -> Bad(st, "unknown event")

TraceFile == JsonDeserialize(IOEnv.TRACE_FILE)
VARIABLES tid, l, st
INSTANCE TraceBase WITH TInit <- NInit, TStep <- NStep, TShow <- NShow, Traces <- TraceFile
=============================================================================
