------------------------------- MODULE MC_Eds -------------------------------
(* Leg A / B for C08, C14: TLC enumerates the feature space of an object description (data type x   *)
(* access type spelling x default-value form x limit form x PDO-mapping key) -- one state per        *)
(* feature vector, printed for the harness, which packs them into documents -- and checks the        *)
(* reference semantics on it: the two's complement reading of signed limits inverts the encoding,    *)
(* $NODEID values resolve to x + node id, access types are lower-cased to one of the CiA 306 values.  *)
EXTENDS Eds, Json
VARIABLES f
Types == IntTypes \cup RealTypes \cup {T_BOOLEAN, T_VISIBLE_STRING, T_OCTET_STRING, T_UNICODE_STRING, T_DOMAIN}
Accs == {"rw", "ro", "wo", "const", "RW", "RO", "WO", "CONST", "Const", "rwr", "rww"}
Init == f \in [dt : Types, acc : Accs, def : {"none", "dec", "hex", "rel0", "rel1"},
               lim : {"none", "low", "high", "both"}, pdo : {-1, 0, 1}]
Next == UNCHANGED f
Spec == Init /\ [][Next]_f
AccOk == AccLower(f.acc) \in {"rw", "ro", "wo", "const", "rwr", "rww"}
\* for every signed type: the limit pattern of -1, the minimum and a positive value decode correctly
Lim2c == f.dt \in SignedTypes =>
    LET w == WidthOf(f.dt)
        allF == [i \in 1..w |-> 255]
        minP == [i \in 1..w |-> IF i = w THEN 128 ELSE 0]
        tok(b) == [k |-> "num2c", v |-> [neg |-> FALSE, mag |-> b]]
    IN /\ SameVal(LimitValue(tok(allF), f.dt), IntVal(-1))
       /\ LimitValue(tok(minP), f.dt).neg
       /\ SameVal(LimitValue(tok(<<5>>), f.dt), IntVal(5))
RelOk == SameVal(TokValue([k |-> "rel", x |-> 384, form |-> 0], f.dt, 5), IntVal(389))
GenPrint == PrintT(<<"BEH", ToJson(f)>>)
=============================================================================
