----------------------------- MODULE MC_SdoCore -----------------------------
(* Leg A for C01 / C02 / C06: ANY client that emits only frames from CliFrames, against ANY      *)
(* server whose responses are in SrvOutcomes, transfers exactly the payload; refused accesses    *)
(* carry the right code and change nothing.  Two transfers back to back (history).               *)
EXTENDS SdoCore

CONSTANTS MaxLen,        \* payload / value lengths 0..MaxLen
          Transfers      \* number of back-to-back transfers

VARIABLES cl, sv, buf, store, data, xf, v0

vars == <<cl, sv, buf, store, data, xf, v0>>

E(idx, sub, num, size, acc, def) ==
    [idx |-> idx, sub |-> sub, num |-> num, size |-> size, acc |-> acc, def |-> def,
     val |-> NoVal, rcb |-> NoVal]

Od == << E(8192, 0, FALSE, 0, "rw", NoVal),            \* DOMAIN-like, no value at first
         E(8193, 0, TRUE, 2, "rw", <<7, 9>>),           \* UNSIGNED16 with default
         E(8194, 0, TRUE, 4, "ro", <<1, 2, 3, 4>>),     \* read-only number
         E(8195, 0, FALSE, 0, "wo", NoVal),             \* write-only
         E(8196, 1, FALSE, 0, "const", <<5, 6, 7, 8, 9, 10, 11, 12, 13>>) >>   \* record member

Muxes == {<<Od[k].idx, Od[k].sub>> : k \in 1..Len(Od)} \cup {<<8196, 2>>, <<12288, 0>>}
Payload(n) == [i \in 1..n |-> i]

Init == /\ cl = CliIdle /\ sv = SrvIdle /\ buf = <<>> /\ data = <<>> /\ xf = 0 /\ v0 = NoVal
        /\ store = [k \in 1..Len(Od) |-> NoVal]

StartDl == /\ cl.ph = "idle" /\ xf < Transfers
           /\ \E m \in Muxes, n \in 0..MaxLen, decl \in BOOLEAN, force \in BOOLEAN :
                /\ data' = Payload(n)
                /\ cl' = CliStart("dl", m[1], m[2], n, IF decl THEN n ELSE -1, force)
           /\ xf' = xf + 1
           /\ UNCHANGED <<sv, buf, store, v0>>

StartUl == /\ cl.ph = "idle" /\ xf < Transfers
           /\ \E m \in Muxes :
                /\ cl' = CliStart("ul", m[1], m[2], 0, -1, FALSE)
                /\ v0' = (LET k == Find(Od, m[1], m[2]) IN
                            IF k > 0 THEN CurVal(Od, store, k) ELSE NoVal)
           /\ data' = <<>>
           /\ xf' = xf + 1
           /\ UNCHANGED <<sv, buf, store>>

\* one protocol exchange: a legal client frame, a legal server reaction
Exchange == /\ cl.ph \in {"dlInit", "dlSeg", "ulInit", "ulSeg"}
            /\ \E f \in CliFrames(cl, data) :
                 \E o \in SrvOutcomes(sv, Od, store, f) :
                   /\ ~o.free
                   /\ Len(o.r) = 1
                   /\ cl' = [CliAdvance(cl, f, o.r[1]) EXCEPT !.code = IF IsAbort(o.r[1]) THEN AbortCode(o.r[1]) ELSE <<>>]
                   /\ sv' = o.sv
                   /\ buf' = NewBuf(o, buf)
                   /\ store' = NewStore(o, buf, store)
            /\ UNCHANGED <<data, xf, v0>>

\* upload accumulation is not part of cl; track it through a second client-side view: the
\* model checks the position bookkeeping, the data equality is checked by UlFrames below
Finish == /\ cl.ph \in {"done", "aborted"}
          /\ cl' = CliIdle
          /\ UNCHANGED <<sv, buf, store, data, xf, v0>>

Next == StartDl \/ StartUl \/ Exchange \/ Finish
Spec == Init /\ [][Next]_vars

K == Find(Od, cl.idx, cl.sub)

\* --- properties --------------------------------------------------------------------------------
NeverConfused == cl.ph # "confused"
DlExact == (cl.ph = "done" /\ cl.op = "dl") => (K > 0 /\ store[K] = data)
UlLength == (cl.ph = "done" /\ cl.op = "ul") => (v0 # NoVal /\ cl.pos = Len(v0))
ServerIdleAtEnd == cl.ph \in {"done", "aborted"} => sv.ph = "idle"
AbortIsRefusal ==
    cl.ph = "aborted" =>
      IF cl.op = "ul" THEN cl.code \in ReadRefusals(Od, store, cl.idx, cl.sub)
                      ELSE cl.code \in WriteRefusals(Od, cl.idx, cl.sub, cl.dlen)
RefusedAlways ==
    cl.ph = "done" =>
      IF cl.op = "ul" THEN ReadRefusals(Od, store, cl.idx, cl.sub) = {}
                      ELSE WriteRefusals(Od, cl.idx, cl.sub, cl.dlen) = {}
\* a refused or read access never changes the store
StoreOnlyOnCommit == [][store' # store => (cl'.ph = "done" /\ cl.op = "dl")]_vars
ToggleFromZero == cl.ph \in {"dlInit", "ulInit"} => cl.tog = 0
Bounded == cl.pos <= Max2(cl.dlen, IF v0 = NoVal THEN 0 ELSE Len(v0))
=============================================================================
