-------------------------------- MODULE Lss --------------------------------
(* CiA 305 layer setting services (C18): fast scan slave state machine (width parametric: an        *)
(* identity is 4 parts of W bits, given as bit sequences LSB first), request / reply frame layouts.  *)
EXTENDS CanBase

\* slave = [mode ("waiting" / "config"), ident (4 bit sequences), pos, nid]
\* fast scan request fields: idbits (W bits of IDNumber), bc (BitCheck), sub (LSSSub), next (LSSNext)
\* returns [answer (BOOLEAN), slave]
FastScanStep(sl, idbits, bc, sub, next) ==
    IF sl.mode # "waiting" \/ sl.nid # 255 THEN [answer |-> FALSE, slave |-> sl]      \* only unconfigured slaves
    ELSE IF bc = 128 THEN [answer |-> TRUE, slave |-> [sl EXCEPT !.pos = 0]]
    ELSE IF sub # sl.pos \/ sub > 3 \/ bc > 31 THEN [answer |-> FALSE, slave |-> sl]
    ELSE LET part == sl.ident[sub + 1]
             match == \A k \in (bc + 1)..Len(part) : part[k] = idbits[k]
         IN IF ~match THEN [answer |-> FALSE, slave |-> sl]
            ELSE [answer |-> TRUE,
                  slave |-> [sl EXCEPT !.pos = next,
                                       !.mode = IF bc = 0 /\ next < sub THEN "config" ELSE sl.mode]]

\* frames (32-bit width)
FastScanReq(idbytes, bc, sub, next) == <<81>> \o idbytes \o <<bc, sub, next>>
IsFastScanReq(q) == Len(q) = 8 /\ IsByteSeq(q) /\ q[1] = 81
IdentifySlave == <<79, 0, 0, 0, 0, 0, 0, 0>>
Cs1(cs, a, b) == <<cs, a, b, 0, 0, 0, 0, 0>>
AddrReq(cs, idbytes) == <<cs>> \o idbytes \o <<0, 0, 0>>
=============================================================================
