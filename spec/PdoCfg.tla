------------------------------- MODULE PdoCfg -------------------------------
(* PDO communication / mapping parameters (C09): CiA 301 encodings, a STRICT device that refuses   *)
(* out-of-order configuration writes, the safe save procedure and the read-back decoding.          *)
EXTENDS CanBase

\* cfg = [cob (0..2^29-1), enabled, rtr, tt, inhibit, evt, sync (-1 = not configured), map (seq of <<idx, sub, len>>)]
\* dev = [valid, rtr, cob, tt, inhibit, evt, sync, count, ent (function 1..8 -> <<idx, sub, len>>)]
\* 32-bit values travel as 4 little-endian bytes.
CobBytes(cob, valid, rtr) ==
    <<cob % 256, (cob \div 256) % 256, (cob \div 65536) % 256,
      ((cob \div 16777216) % 32) + (IF rtr THEN 0 ELSE 64) + (IF valid THEN 0 ELSE 128)>>
CobOf(b) == b[1] + 256 * b[2] + 65536 * b[3] + 16777216 * (b[4] % 32)
ValidOf(b) == b[4] < 128
RtrOf(b) == (b[4] \div 64) % 2 = 0
MapWord(m) == <<m[3], m[2], m[1] % 256, m[1] \div 256>>       \* index<<16 | sub<<8 | bit length
MapOf(b) == <<b[3] + 256 * b[4], b[2], b[1]>>
NoEntry == <<0, 0, 0>>

DevInit(valid, rtr, cob, tt, count, ents) ==
    [valid |-> valid, rtr |-> rtr, cob |-> cob, tt |-> tt, inhibit |-> 0, evt |-> 0, sync |-> 0,
     count |-> count, ent |-> [k \in 1..8 |-> IF k <= Len(ents) THEN ents[k] ELSE NoEntry]]

\* strict device: write to the communication record (kind "com") or the mapping array ("map")
DevWrite(dev, kind, sub, val) ==
    IF kind = "com"
      THEN CASE sub = 1 ->
                  IF Len(val) # 4 THEN [ok |-> FALSE, dev |-> dev]
                  \* bits 0..30 must not change while the PDO exists (and stays existing)
                  ELSE IF dev.valid /\ ValidOf(val) /\ (CobOf(val) # dev.cob \/ RtrOf(val) # dev.rtr)
                    THEN [ok |-> FALSE, dev |-> dev]
                  ELSE IF dev.valid /\ ~ValidOf(val) /\ FALSE THEN [ok |-> FALSE, dev |-> dev]
                  ELSE [ok |-> TRUE, dev |-> [dev EXCEPT !.valid = ValidOf(val), !.cob = CobOf(val), !.rtr = RtrOf(val)]]
             [] sub = 2 -> IF Len(val) = 1 THEN [ok |-> TRUE, dev |-> [dev EXCEPT !.tt = val[1]]]
                                           ELSE [ok |-> FALSE, dev |-> dev]
             [] sub = 3 -> IF Len(val) = 2 /\ ~dev.valid THEN [ok |-> TRUE, dev |-> [dev EXCEPT !.inhibit = U16(val)]]
                                                          ELSE [ok |-> FALSE, dev |-> dev]
             [] sub = 5 -> IF Len(val) = 2 THEN [ok |-> TRUE, dev |-> [dev EXCEPT !.evt = U16(val)]]
                                           ELSE [ok |-> FALSE, dev |-> dev]
             [] sub = 6 -> IF Len(val) = 1 /\ ~dev.valid THEN [ok |-> TRUE, dev |-> [dev EXCEPT !.sync = val[1]]]
                                                          ELSE [ok |-> FALSE, dev |-> dev]
             [] OTHER -> [ok |-> FALSE, dev |-> dev]
      ELSE IF sub = 0
        THEN \* number of mapped objects: only while the PDO is invalid; n > 0 needs n defined entries
             IF Len(val) = 1 /\ ~dev.valid /\ val[1] <= 8 /\ \A k \in 1..val[1] : dev.ent[k] # NoEntry
               THEN [ok |-> TRUE, dev |-> [dev EXCEPT !.count = val[1]]]
               ELSE [ok |-> FALSE, dev |-> dev]
        ELSE \* mapping entry: only while the PDO is invalid and the count is zero
             IF Len(val) = 4 /\ sub \in 1..8 /\ ~dev.valid /\ dev.count = 0
               THEN [ok |-> TRUE, dev |-> [dev EXCEPT !.ent[sub] = MapOf(val)]]
               ELSE [ok |-> FALSE, dev |-> dev]

DevRead(dev, kind, sub) ==
    IF kind = "com"
      THEN CASE sub = 0 -> <<6>> [] sub = 1 -> CobBytes(dev.cob, dev.valid, dev.rtr) [] sub = 2 -> <<dev.tt>>
             [] sub = 3 -> LE16(dev.inhibit) [] sub = 5 -> LE16(dev.evt) [] sub = 6 -> <<dev.sync>>
             [] OTHER -> <<>>
      ELSE IF sub = 0 THEN <<dev.count>> ELSE IF sub \in 1..8 THEN MapWord(dev.ent[sub]) ELSE <<>>

\* does the device hold exactly the configuration?
Holds(dev, cfg) ==
    /\ dev.cob = cfg.cob /\ dev.valid = cfg.enabled /\ dev.rtr = cfg.rtr
    /\ (cfg.tt >= 0 => dev.tt = cfg.tt)
    /\ (cfg.inhibit >= 0 => dev.inhibit = cfg.inhibit)
    /\ (cfg.evt >= 0 => dev.evt = cfg.evt)
    /\ (cfg.sync >= 0 => dev.sync = cfg.sync)
    /\ dev.count = Len(cfg.map)
    /\ \A k \in 1..Len(cfg.map) : dev.ent[k] = cfg.map[k]

\* the safe procedure as a sequence of <<kind, sub, value>> writes
RECURSIVE EntryWrites(_, _)
EntryWrites(m, k) == IF k > Len(m) THEN <<>> ELSE <<<<"map", k, MapWord(m[k])>>>> \o EntryWrites(m, k + 1)
SaveSeq(cfg) ==
    <<<<"com", 1, CobBytes(cfg.cob, FALSE, cfg.rtr)>>>>
    \o (IF cfg.tt >= 0 THEN <<<<"com", 2, <<cfg.tt>>>>>> ELSE <<>>)
    \o (IF cfg.inhibit >= 0 THEN <<<<"com", 3, LE16(cfg.inhibit)>>>> ELSE <<>>)
    \o (IF cfg.evt >= 0 THEN <<<<"com", 5, LE16(cfg.evt)>>>> ELSE <<>>)
    \o (IF cfg.sync >= 0 THEN <<<<"com", 6, <<cfg.sync>>>>>> ELSE <<>>)
    \o <<<<"map", 0, <<0>>>>>> \o EntryWrites(cfg.map, 1) \o <<<<"map", 0, <<Len(cfg.map)>>>>>>
    \o (IF cfg.enabled THEN <<<<"com", 1, CobBytes(cfg.cob, TRUE, cfg.rtr)>>>> ELSE <<>>)

\* what a fresh node must see after reading the device
ReadBackOk(a, cfg) ==
    /\ a.cob = cfg.cob /\ a.enabled = cfg.enabled /\ a.rtr = cfg.rtr
    /\ (cfg.tt >= 0 => a.tt = cfg.tt)
    /\ a.map = cfg.map
    /\ (cfg.tt >= 254 =>
          /\ (cfg.inhibit >= 0 => a.inhibit = cfg.inhibit)
          /\ (cfg.evt >= 0 => a.evt = cfg.evt)
          /\ (cfg.sync >= 0 => a.sync = cfg.sync))
    /\ a.subscribed = cfg.enabled
=============================================================================
