SPECIFICATION Spec
CONSTANTS
  Periods = {10000, 250000}
  HbTimes = {0, 100, 1000}
  Depth = 5
INVARIANT AtMostOnePerProducer
INVARIANT NoneAfterStop
INVARIANT NoneAfterZeroHeartbeat
INVARIANT DisconnectStopsPdo
INVARIANT HbPayloadIsState
INVARIANT PdoPayloadCurrent
INVARIANT RestartUsesCurrentId
INVARIANT SyncRestartUsesCurrentId
VIEW View
CHECK_DEADLOCK FALSE
