----------------------------- MODULE MC_SdoFaults -----------------------------
(* Leg A for C07: expedited / segmented transfers over a channel that applies ONE disturbance   *)
(* to the first transfer (response lost, duplicated, replaced by an abort, wrong toggle, wrong  *)
(* command specifier, wrong multiplexer, stale frame in front of the response, response         *)
(* delivered late = after the time-out), followed by an undisturbed transfer.                    *)
(* The client model performs the acceptance checks the library performs (code-shaped):          *)
(* specifier always, toggle on upload segments, multiplexer on upload initiate; it flushes its  *)
(* response queue before every request and answers a missing response with an abort frame       *)
(* carrying the time-out code.  TLC shows that these checks suffice for NoSilentCorruption and  *)
(* Recovery, and prints every reachable disturbed scenario for leg B (replay into the real      *)
(* client).                                                                                     *)
EXTENDS SdoCore, Json, SequencesExt

CONSTANTS Lens            \* payload / value lengths explored

VARIABLES cl, sv, buf, store, data, acc, xf, v0, flt, stepno, queue, lastf, sent

vars == <<cl, sv, buf, store, data, acc, xf, v0, flt, stepno, queue, lastf, sent>>

E(idx, sub, def) == [idx |-> idx, sub |-> sub, num |-> FALSE, size |-> 0, acc |-> "rw",
                     def |-> def, val |-> NoVal, rcb |-> NoVal]
Payload(n) == [i \in 1..n |-> i]
Od == <<E(8192, 0, NoVal)>> \o [i \in 1..Cardinality(Lens) |-> E(8193 + i, 0, NoVal)]
\* value of length n pre-stored for uploads: entry 8193+rank(n)
LenSeq == SetToSortSeq(Lens, LAMBDA a, b : a < b)
Od2 == <<E(8192, 0, NoVal)>> \o [i \in 1..Cardinality(Lens) |-> E(8193 + i, 0, [j \in 1..LenSeq[i] |-> 100 + j])]

Kinds == {"none", "drop", "late", "dup", "abort", "toggle", "cs", "mux", "muxsub", "stale"}
OtherIdx == 4660
\* stale frames: responses of an EARLIER transfer -- another object (different index and sub-index),
\* the same index with another sub-index, the same sub-index with another index, or another phase
StaleFrames == {DlInitResp(OtherIdx, 1), UlInitExp(OtherIdx, 1, <<9, 9>>), UlInitSeg(OtherIdx, 1, 9),
                DlInitResp(OtherIdx, 0), UlInitExp(OtherIdx, 0, <<9, 9>>), DlInitResp(8192, 1),
                DlSegResp(0), DlSegResp(1), UlSegResp(0, <<9, 9, 9>>, 1), UlSegResp(1, <<9>>, 0)}
               \cup {UlInitExp(8193 + i, 1, <<9, 9>>) : i \in 1..Cardinality(Lens)}

NoFault == [kind |-> "none", step |-> 0, s |-> <<>>]

Init == /\ cl = CliIdle /\ sv = SrvIdle /\ buf = <<>> /\ data = <<>> /\ acc = <<>> /\ xf = 0
        /\ v0 = NoVal /\ store = [k \in 1..Len(Od2) |-> NoVal] /\ flt = NoFault /\ stepno = 0
        /\ queue = <<>> /\ lastf = <<>> /\ sent = FALSE

FaultChoice == [kind : Kinds \ {"none", "stale"}, step : 0..3, s : {<<>>}]
               \cup [kind : {"stale"}, step : 0..3, s : StaleFrames]

StartDl == /\ cl.ph = "idle" /\ xf < 2
           /\ \E n \in Lens, decl \in BOOLEAN, force \in BOOLEAN :
                /\ data' = Payload(n)
                /\ cl' = CliStart("dl", 8192, 0, n, IF decl THEN n ELSE -1, force)
           /\ flt' = IF xf = 0 THEN flt ELSE NoFault
           /\ xf' = xf + 1 /\ stepno' = 0 /\ acc' = <<>> /\ sent' = FALSE
           /\ UNCHANGED <<sv, buf, store, v0, queue, lastf>>

StartUl == /\ cl.ph = "idle" /\ xf < 2
           /\ \E i \in 1..Cardinality(Lens) :
                /\ cl' = CliStart("ul", 8193 + i, 0, 0, -1, FALSE)
                /\ v0' = CurVal(Od2, store, i + 1)
           /\ flt' = IF xf = 0 THEN flt ELSE NoFault
           /\ data' = <<>> /\ acc' = <<>>
           /\ xf' = xf + 1 /\ stepno' = 0 /\ sent' = FALSE
           /\ UNCHANGED <<sv, buf, store, queue, lastf>>

\* the disturbance of the first transfer is chosen up front (it is part of the scenario)
ChooseFault == /\ xf = 0 /\ flt = NoFault /\ cl.ph = "idle"
               /\ flt' \in FaultChoice
               /\ UNCHANGED <<cl, sv, buf, store, data, acc, xf, v0, stepno, queue, lastf, sent>>

\* frames that have the shape of a legal response for the client's current step
LegalShape(c, r) ==
    CASE c.ph = "dlInit" -> Cs(r) = 3 /\ FIdx(r) = c.idx /\ FSub(r) = c.sub
      [] c.ph = "dlSeg" -> Cs(r) = 1 /\ Tg(r) = c.tog
      [] c.ph = "ulInit" -> Cs(r) = 2 /\ FIdx(r) = c.idx /\ FSub(r) = c.sub
      [] c.ph = "ulSeg" -> Cs(r) = 0 /\ Tg(r) = c.tog
      [] OTHER -> FALSE

\* the library's acceptance checks
Accepts(c, r) ==
    CASE c.ph = "dlInit" -> Cs(r) = 3
      [] c.ph = "dlSeg" -> Cs(r) = 1
      [] c.ph = "ulInit" -> Cs(r) = 2 /\ FIdx(r) = c.idx /\ FSub(r) = c.sub
      [] c.ph = "ulSeg" -> Cs(r) = 0 /\ Tg(r) = c.tog
      [] OTHER -> FALSE

Disturbed(r) ==   \* what the channel delivers for response r at the faulty step
    CASE flt.kind = "drop" -> <<>>
      [] flt.kind = "late" -> <<>>
      [] flt.kind = "dup" -> <<r, r>>
      [] flt.kind = "abort" -> <<AbortFrame(cl.idx, cl.sub, AbGeneral)>>
      [] flt.kind = "toggle" -> <<[r EXCEPT ![1] = IF Tg(r) = 1 THEN r[1] - 16 ELSE r[1] + 16]>>
      [] flt.kind = "cs" -> <<[r EXCEPT ![1] = (r[1] % 32) + 32 * (IF Cs(r) = 3 THEN 5 ELSE Cs(r) + 1)]>>
      [] flt.kind = "mux" -> <<[r EXCEPT ![2] = (r[2] + 1) % 256]>>
      [] flt.kind = "muxsub" -> <<[r EXCEPT ![4] = (r[4] + 1) % 256]>>
      [] flt.kind = "stale" -> <<flt.s, r>>
      [] OTHER -> <<r>>

Applicable(r) ==
    CASE flt.kind = "toggle" -> cl.ph \in {"dlSeg", "ulSeg"}
      [] flt.kind \in {"mux", "muxsub"} -> cl.ph \in {"dlInit", "ulInit"}
      [] flt.kind = "stale" -> ~LegalShape(cl, flt.s)
      [] OTHER -> TRUE

\* client emits a legal frame (after flushing its queue); server answers; channel delivers
Send == /\ cl.ph \in {"dlInit", "dlSeg", "ulInit", "ulSeg"} /\ ~sent
        /\ \E f \in CliFrames(cl, data) :
             \E o \in SrvOutcomes(sv, Od2, store, f) :
               /\ ~o.free /\ Len(o.r) = 1
               /\ \A o2 \in SrvOutcomes(sv, Od2, store, f) : Len(o2.r[1]) = 8 => o2.r[1][1] <= o.r[1][1]
               /\ sv' = o.sv /\ buf' = NewBuf(o, buf) /\ store' = NewStore(o, buf, store)
               /\ lastf' = f
               /\ queue' = IF flt.kind # "none" /\ stepno = flt.step /\ Applicable(o.r[1])
                             THEN Disturbed(o.r[1]) ELSE <<o.r[1]>>
               /\ IF flt.kind = "late" /\ stepno = flt.step
                    THEN flt' = [flt EXCEPT !.s = o.r[1]] ELSE flt' = flt
        /\ sent' = TRUE
        /\ UNCHANGED <<cl, data, acc, xf, v0, stepno>>

AccOf(c, r) ==   \* upload data carried by response r
    IF c.ph = "ulInit" /\ (r[1] \div 2) % 2 = 1
      THEN SubSeq(r, 5, 4 + (IF r[1] % 2 = 1 THEN 4 - ((r[1] \div 4) % 4) ELSE 4))
    ELSE IF c.ph = "ulSeg" THEN SubSeq(r, 2, 8 - ((r[1] \div 2) % 8))
    ELSE <<>>

\* client takes the first queued frame
Receive == /\ sent /\ queue # <<>>
           /\ LET r == Head(queue) IN
                IF IsAbort(r) THEN cl' = [cl EXCEPT !.ph = "aborted", !.code = AbortCode(r)]
                                   /\ acc' = acc
                ELSE IF Accepts(cl, r)
                  THEN /\ cl' = (IF cl.ph \in {"dlInit", "dlSeg"}
                                   THEN \* download: only the specifier is looked at
                                        CliAdvance(cl, lastf, IF cl.ph = "dlInit"
                                                                THEN DlInitResp(cl.idx, cl.sub)
                                                                ELSE DlSegResp(cl.tog))
                                   ELSE CliAdvance(cl, lastf, r))
                       /\ acc' = acc \o AccOf(cl, r)
                  ELSE cl' = [cl EXCEPT !.ph = "failed"] /\ acc' = acc
           /\ queue' = Tail(queue)
           /\ sent' = FALSE /\ stepno' = stepno + 1
           /\ UNCHANGED <<sv, buf, store, data, xf, v0, flt, lastf>>

\* no response: the client sends an abort frame with the time-out code and fails
Timeout == /\ sent /\ queue = <<>>
           /\ \E o \in SrvOutcomes(sv, Od2, store, AbortFrame(0, 0, AbTimeout)) :
                sv' = o.sv /\ buf' = NewBuf(o, buf) /\ store' = NewStore(o, buf, store)
           /\ cl' = [cl EXCEPT !.ph = "failed"]
           /\ sent' = FALSE
           /\ UNCHANGED <<data, acc, xf, v0, flt, stepno, queue, lastf>>

Outcome == IF cl.ph = "done" THEN "ok" ELSE cl.ph

Finish == /\ cl.ph \in {"done", "aborted", "failed"} /\ ~sent
          /\ (xf = 1 /\ flt.kind # "none" =>
                PrintT(<<"BEH", ToJson([op |-> cl.op, n |-> IF cl.op = "dl" THEN cl.dlen ELSE Len(v0),
                                         decl |-> cl.size >= 0, force |-> cl.force,
                                         kind |-> flt.kind, step |-> flt.step, reqidx |-> cl.idx, stale |-> IF flt.kind = "stale" THEN flt.s ELSE <<>>,
                                         outcome |-> Outcome, hit |-> stepno > flt.step \/ cl.ph = "failed"])>>))
          /\ cl' = CliIdle
          \* a response that was delayed beyond the time-out arrives now (stale for the next transfer)
          /\ queue' = IF flt.kind = "late" /\ flt.s # <<>> /\ xf = 1 THEN queue \o <<flt.s>> ELSE queue
          /\ UNCHANGED <<sv, buf, store, data, acc, xf, v0, flt, stepno, lastf, sent>>

\* before a request the client drops whatever is still queued
Flush == /\ queue # <<>> /\ ~sent /\ cl.ph \in {"dlInit", "dlSeg", "ulInit", "ulSeg"}
         /\ queue' = <<>>
         /\ UNCHANGED <<cl, sv, buf, store, data, acc, xf, v0, flt, stepno, lastf, sent>>

SendF == (queue = <<>> \/ sent) /\ Send
Next == ChooseFault \/ StartDl \/ StartUl \/ SendF \/ Flush \/ Receive \/ Timeout \/ Finish
Spec == Init /\ [][Next]_vars /\ WF_vars(Next)

K == Find(Od2, cl.idx, cl.sub)
NoSilentCorruption ==
    cl.ph = "done" => IF cl.op = "dl" THEN store[K] = data ELSE acc = v0
\* the transfer after the disturbed one is undisturbed and must complete correctly
Recovery == (xf = 2 /\ cl.ph \in {"failed", "aborted", "confused"}) => FALSE
NeverConfusedUndisturbed == (xf = 2 \/ flt.kind = "none") => cl.ph # "confused"
Terminates == <>(xf = 2 /\ cl.ph = "idle")
=============================================================================
