---------------------------- MODULE Trace_OdDict ----------------------------
(* Recorded operation sequences on a real canopen.ObjectDictionary, judged call by call by OdDict.   *)
EXTENDS OdDict, SequencesExt, Json, IOUtils
XInit(t) == Empty
XShow(st) == [ix |-> DOMAIN st.ix, nm |-> DOMAIN st.nm]
Bad(st, why) == [ok |-> FALSE, why |-> why, st |-> st]
Good(st) == [ok |-> TRUE, why |-> "", st |-> st]
XStep(st, e, t) ==
    CASE e.e = "add" -> Good(AddObject(st, e.obj))
      [] e.e = "del" ->
           LET r == Delete(st, e.key) IN
           IF e.res # r.res THEN Bad(st, "deleting an object: outcome (ok / KeyError) is not the specified one")
           ELSE Good(r.d)
      [] e.e = "get" /\ t.scope = "arr" ->
           LET r == ArrLookup(st, e.key) IN
           IF ~r.ok THEN (IF e.res = "KeyError" THEN Good(st) ELSE Bad(st, "array: look-up of a sub-index that cannot exist did not raise KeyError"))
           ELSE IF e.res # "ok" THEN Bad(st, "array: look-up of a defined or derivable member failed")
           ELSE IF r.synth /\ (e.id # -2 \/ e.name # r.name) THEN Bad(st, "array: a member derived from member 1 is not a fresh variable named <member 1>_<hex sub-index>")
           ELSE IF ~r.synth /\ e.id # r.id THEN Bad(st, "array: look-up returned another member")
           ELSE Good(st)
      [] e.e = "get" ->
           LET r == Lookup(st, e.key) IN
           IF ~r.ok THEN (IF e.res = "KeyError" THEN Good(st) ELSE Bad(st, "look-up of a missing key did not raise KeyError"))
           ELSE IF e.res # "ok" THEN Bad(st, "look-up of a present key failed")
           ELSE IF e.id # r.obj.id THEN Bad(st, "look-up returned another object")
           ELSE Good(st)
      [] e.e = "dotted" ->
           LET r == Dotted(st, e.parent, e.sub) IN
           IF e.res # r.res THEN Bad(st, "look-up of 'Parent.member': outcome is not the specified one")
           ELSE IF r.res = "ok" /\ (e.id # r.id \/ e.rsub # r.sub) THEN Bad(st, "look-up of 'Parent.member' returned another variable")
           ELSE Good(st)
      [] e.e = "contains" /\ t.scope = "arr" -> IF e.res = ArrContains(st, e.key) THEN Good(st) ELSE Bad(st, "array: membership is not 'defined, or derivable from member 1'")
      [] e.e = "contains" -> IF e.res = Contains(st, e.key) THEN Good(st) ELSE Bad(st, "membership is not 'key of the index map or of the name map'")
      [] e.e = "len" -> IF e.res = Length(st) THEN Good(st) ELSE Bad(st, "length is not the number of indexes")
      [] e.e = "iter" -> IF e.res = SetToSortSeq(DOMAIN st.ix, <) THEN Good(st) ELSE Bad(st, "iteration does not yield the indexes in ascending order")
      [] e.e = "getvar" ->
           LET r == GetVariable(st, e.key, e.sub) IN
           IF ~r.ok THEN (IF e.res = "none" THEN Good(st) ELSE Bad(st, "get_variable found something for a missing entry"))
           ELSE IF e.res # "ok" THEN Bad(st, "get_variable did not find a present entry")
           ELSE IF e.id # r.id \/ e.rsub # r.sub \/ e.name # r.name THEN Bad(st, "get_variable returned another variable (owner / sub-index / name)")
           ELSE Good(st)
      [] OTHER -> Bad(st, "unknown event")
TraceFile == JsonDeserialize(IOEnv.TRACE_FILE)
VARIABLES tid, l, st
INSTANCE TraceBase WITH TInit <- XInit, TStep <- XStep, TShow <- XShow, Traces <- TraceFile
=============================================================================
