----------------------------- MODULE Trace_PdoCfg -----------------------------
(* C09 trace specification: PdoMap.save() against a strict device (every SDO write logged),          *)
(* then a fresh node reads the device (every SDO read logged) and its PdoMap attributes and          *)
(* subscription are compared with the configuration.                                                 *)
EXTENDS PdoCfg, Json, IOUtils
DevOf(d) == DevInit(d.valid, d.rtr, d.cob, d.tt, d.count, d.ents)
CInit0(t) == [dev |-> DevOf(t.dev0), cfg |-> <<>>, first |-> TRUE, nw |-> 0, vdone |-> FALSE]
CShow0(st) == st
Bad(st, why) == [ok |-> FALSE, why |-> why, st |-> st]
Good(st) == [ok |-> TRUE, why |-> "", st |-> st]
CfgOf(e) == [cob |-> e.cob, enabled |-> e.enabled, rtr |-> e.rtr, tt |-> e.tt, inhibit |-> e.inhibit,
             evt |-> e.evt, sync |-> e.sync, map |-> e.map]
GStep(st, e, t) ==
    CASE e.e = "cfg" -> Good([st EXCEPT !.cfg = CfgOf(e), !.first = TRUE, !.nw = 0, !.vdone = FALSE])
      [] e.e = "devreset" -> Good([st EXCEPT !.dev = DevOf(t.dev0), !.first = TRUE, !.nw = 0, !.vdone = FALSE])
      [] e.e = "nomap" -> Bad(st, "the node has no map for a PDO number (1..512) its dictionary describes")
      [] e.e = "w" ->
           LET r == DevWrite(st.dev, e.k, e.sub, e.val) IN
           IF e.ok # r.ok THEN Bad(st, "HARNESS: device simulator disagrees with the strict device of the specification")
           ELSE IF st.first /\ ~(e.k = "com" /\ e.sub = 1 /\ Len(e.val) = 4 /\ ~ValidOf(e.val))
             THEN Bad(st, "the PDO is not invalidated (COB-ID with bit 31) by the first write")
           ELSE IF ~r.ok THEN Bad(st, "a write of the save procedure is refused by a strict device (out of order)")
           ELSE IF st.vdone THEN Bad(st, "the PDO is not validated last: a write followed the COB-ID write that validates it")
           ELSE Good([st EXCEPT !.dev = r.dev, !.first = FALSE, !.nw = st.nw + 1,
                                !.vdone = (e.k = "com" /\ e.sub = 1 /\ Len(e.val) = 4 /\ ValidOf(e.val))])
      [] e.e = "saved" ->
           IF e.raised THEN Bad(st, "save raised")
           ELSE IF ~Holds(st.dev, st.cfg) THEN Bad(st, "after save the device does not hold the CiA 301 encoding of the configuration")
           ELSE Good(st)
      [] e.e = "r" ->
           IF e.ok /\ e.val # DevRead(st.dev, e.k, e.sub) THEN Bad(st, "HARNESS: device simulator read differs")
           ELSE Good(st)
      [] e.e = "attrs" ->
           IF e.raised THEN Bad(st, "reading the configuration raised")
           ELSE IF ~ReadBackOk(e, st.cfg) THEN Bad(st, "configuration read back into a fresh node differs (COB-ID / flags / type / timers / mapping / subscription)")
           ELSE Good(st)
      [] OTHER -> Bad(st, "unknown event")
TraceFile == JsonDeserialize(IOEnv.TRACE_FILE)
VARIABLES tid, l, st
INSTANCE TraceBase WITH TInit <- CInit0, TStep <- GStep, TShow <- CShow0, Traces <- TraceFile
=============================================================================
