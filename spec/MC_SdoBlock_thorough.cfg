SPECIFICATION Spec
CONSTANTS
  Lens = {1, 2, 6, 7, 8, 13, 14, 15, 21, 22, 29, 36, 50}
  Blks = {1, 2, 3, 5, 127}
  MaxLoss = 2
INVARIANT NormalReturnMeansCommitted
INVARIANT EndAlwaysAccepted
INVARIANT AccIsPrefix
PROPERTY Terminates
CHECK_DEADLOCK FALSE
