SPECIFICATION Spec
CONSTANTS
  Codes = {0, 255, 256, 4096, 8192, 65280, 65535}
  Depth = 6
INVARIANT ActiveIsSinceReset
INVARIANT NoResetInActive
PROPERTY LogGrows
CHECK_DEADLOCK FALSE
