------------------------------- MODULE OdDict -------------------------------
(* The object dictionary as a container (canopen.ObjectDictionary / ODRecord / ODArray): two maps,    *)
(* by index and by name, kept by add_object / __setitem__ / __delitem__, and the look-up rules of     *)
(* __getitem__ / __contains__ / get_variable / __len__ / __iter__.  Specification growth (DESIGN      *)
(* §16.7, fourth step): every property about a dictionary (C02, C06, C08, C14) rests on these rules.  *)
(* The model is of what the code does, one operator per method; deliberate deviations of the code     *)
(* from the naive reading are named:                                                                  *)
(*   EmptyGroupHiddenByName : `names.get(key) or indices.get(key)` - a record / array without members *)
(*       is falsy (len 0), so it is found by index but not by name;                                   *)
(*   the two maps are updated independently (a second object under a used index leaves the first      *)
(*       one's name behind; deleting removes indices[obj.index] and names[obj.name], which may be     *)
(*       entries of two different objects, and can fail half-way).                                    *)
(* MC_OdDict shows that under the discipline "an index and a name are only ever re-used together"     *)
(* the two maps stay mirror images and no operation fails half-way.                                   *)
EXTENDS Naturals, Sequences, FiniteSets, TLC

\* object: [id |-> Nat, index |-> Nat, name |-> STRING, kind |-> "var" | "rec" | "arr", subs |-> Seq(Nat) ascending]
\* dictionary state: [ix |-> function index -> object, nm |-> function name -> object]
Empty == [ix |-> <<>>, nm |-> <<>>]

Without(f, k) == [x \in DOMAIN f \ {k} |-> f[x]]
SeqSet(s) == {s[i] : i \in 1..Len(s)}
Truthy(o) == o.kind = "var" \/ o.subs # <<>>              \* EmptyGroupHiddenByName

AddObject(d, o) == [ix |-> (o.index :> o) @@ d.ix, nm |-> (o.name :> o) @@ d.nm]

\* key: [k |-> "i", v |-> Nat] or [k |-> "s", v |-> STRING];  result [ok, obj]
Lookup(d, key) ==
    IF key.k = "s" /\ key.v \in DOMAIN d.nm /\ Truthy(d.nm[key.v]) THEN [ok |-> TRUE, obj |-> d.nm[key.v]]
    ELSE IF key.k = "i" /\ key.v \in DOMAIN d.ix THEN [ok |-> TRUE, obj |-> d.ix[key.v]]
    ELSE [ok |-> FALSE, obj |-> <<>>]
Contains(d, key) == IF key.k = "s" THEN key.v \in DOMAIN d.nm ELSE key.v \in DOMAIN d.ix
Length(d) == Cardinality(DOMAIN d.ix)
\* __delitem__: outcome "ok", "KeyError" (nothing changed) or "KeyError-partial" (index entry gone, name entry missing)
Delete(d, key) ==
    LET r == Lookup(d, key) IN
    IF ~r.ok THEN [res |-> "KeyError", d |-> d]
    ELSE IF r.obj.index \notin DOMAIN d.ix THEN [res |-> "KeyError", d |-> d]
    ELSE LET d1 == [d EXCEPT !.ix = Without(d.ix, r.obj.index)] IN
         IF r.obj.name \notin DOMAIN d.nm THEN [res |-> "KeyError", d |-> d1]
         ELSE [res |-> "ok", d |-> [d1 EXCEPT !.nm = Without(d.nm, r.obj.name)]]

MemberName(sub) == "m" \o ToString(sub)
HexD == <<"0", "1", "2", "3", "4", "5", "6", "7", "8", "9", "a", "b", "c", "d", "e", "f">>
Hex(n) == IF n < 16 THEN HexD[n + 1] ELSE HexD[(n \div 16) + 1] \o HexD[(n % 16) + 1]
\* The same two-map container one level down: ODRecord (MutableMapping: add_member, rec[sub] = var,
\* del rec[key], explicit __contains__) and ODArray (Mapping: add_member only; __getitem__ synthesises the
\* members 1..255 from member 1, and membership is Mapping's "look it up and see").  Members are
\* objects of kind "var" whose index field holds the sub-index.
ArrLookup(d, key) ==
    LET r == Lookup(d, key) IN
    IF r.ok THEN [ok |-> TRUE, synth |-> FALSE, id |-> r.obj.id, name |-> r.obj.name]
    ELSE IF key.k = "i" /\ 0 < key.v /\ key.v < 256 /\ 1 \in DOMAIN d.ix
      THEN [ok |-> TRUE, synth |-> TRUE, id |-> 0, name |-> d.ix[1].name \o "_" \o Hex(key.v)]
    ELSE [ok |-> FALSE, synth |-> FALSE, id |-> 0, name |-> ""]
ArrContains(d, key) == ArrLookup(d, key).ok

\* member of a record / array by number: [ok, sub, name]; arrays synthesise 1..255 from member 1
Member(o, sub) ==
    IF sub \in SeqSet(o.subs) THEN [ok |-> TRUE, sub |-> sub, name |-> MemberName(sub)]
    ELSE IF o.kind = "arr" /\ 0 < sub /\ sub < 256 /\ 1 \in SeqSet(o.subs)
      THEN [ok |-> TRUE, sub |-> sub, name |-> MemberName(1) \o "_" \o Hex(sub)]
    ELSE [ok |-> FALSE, sub |-> 0, name |-> ""]
\* get_variable(key, sub): a variable is returned whatever sub says; None when anything is missing
GetVariable(d, key, sub) ==
    LET r == Lookup(d, key) IN
    IF ~r.ok THEN [ok |-> FALSE]
    ELSE IF r.obj.kind = "var" THEN [ok |-> TRUE, id |-> r.obj.id, sub |-> 0, name |-> r.obj.name]
    ELSE LET m == Member(r.obj, sub) IN
         IF m.ok THEN [ok |-> TRUE, id |-> r.obj.id, sub |-> m.sub, name |-> m.name] ELSE [ok |-> FALSE]
\* dictionary["Parent.mN"]: only tried when the whole text is not a key
Dotted(d, parent, sub) ==
    LET r == Lookup(d, [k |-> "s", v |-> parent]) IN
    IF ~r.ok THEN [res |-> "KeyError"]
    ELSE IF r.obj.kind = "var" THEN [res |-> "TypeError"]
    ELSE IF sub \in SeqSet(r.obj.subs) THEN [res |-> "ok", id |-> r.obj.id, sub |-> sub]
    ELSE [res |-> "KeyError"]
=============================================================================
