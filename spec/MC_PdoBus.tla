------------------------------ MODULE MC_PdoBus ------------------------------
(* Leg A for C15: two consumer maps (distinct or colliding COB-IDs, enabled or not), sequences of     *)
(* producer transmissions, foreign frames and reconfigurations: a frame changes exactly the enabled   *)
(* maps whose COB-ID equals the frame's id, and such a map then holds the producer's data.            *)
EXTENDS PdoBus
CONSTANTS Cobs, Depth
VARIABLES cons, pframe, depth, last
vars == <<cons, pframe, depth, last>>
M(c, en) == [cob |-> c, enabled |-> en, rtr |-> TRUE, ncb |-> 1, subs |-> IF en THEN {c} ELSE {}, frame |-> <<0>>, ts |-> -1, period |-> -1,
             rx |-> FALSE, cbs |-> 0]
Init == cons \in {<<M(a, ea), M(b, eb)>> : a \in Cobs, b \in Cobs, ea \in BOOLEAN, eb \in BOOLEAN}
        /\ pframe = <<1>> /\ depth = 0 /\ last = <<0, <<>>, cons>>
Tx == \E id \in Cobs, d \in {<<7>>, <<9>>} :
        cons' = Deliver(cons, id, d, depth + 1) /\ last' = <<id, d, cons>> /\ UNCHANGED pframe
Recfg == \E k \in 1..2, c \in Cobs, en \in BOOLEAN :
        cons' = [cons EXCEPT ![k].cob = c, ![k].enabled = en, ![k].subs = IF en THEN cons[k].subs \cup {c} ELSE cons[k].subs] /\ last' = <<0, <<>>, cons'>> /\ UNCHANGED pframe
Next == depth < Depth /\ depth' = depth + 1 /\ (Tx \/ Recfg)
Spec == Init /\ [][Next]_vars
OnlySubscribedMapChanges ==
    last[1] # 0 => \A k \in 1..2 :
       IF last[1] \in last[3][k].subs /\ last[3][k].cob = last[1]
         THEN cons[k].frame = last[2] /\ cons[k].rx /\ cons[k].cbs = last[3][k].cbs + 1
         ELSE cons[k] = last[3][k]
PeriodIsDelta == \A k \in 1..2 : cons[k].period >= 0 => cons[k].period <= Depth
=============================================================================
