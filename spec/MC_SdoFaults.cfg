SPECIFICATION Spec
CONSTANTS
  Lens = {0, 1, 4, 5, 8, 15}
INVARIANT NoSilentCorruption
INVARIANT Recovery
INVARIANT NeverConfusedUndisturbed
CHECK_DEADLOCK FALSE
