-------------------------------- MODULE Net --------------------------------
(* Network dispatch (C10): subscribers multimap, node add / replace / remove, notify, send,      *)
(* listener filter, node scanner.                                                               *)
(* A callback is a 4-tuple of integers: <<0, k, 0, 0>> = user callback k,                        *)
(*   <<1, nid, gen, role>> = handler of generation gen of node nid, role 1 = SDO client response, *)
(*   2 = heartbeat, 3 = EMCY, 4 = NMT command (remote node), 5 = SDO server request,             *)
(*   6 = NMT command (local node); <<2, 0, 0, 0>> = the LSS master's response handler.            *)
EXTENDS Naturals, Sequences, FiniteSets, TLC

LssCb == <<2, 0, 0, 0>>
LssId == 2020      \* 0x7E4

\* subs : function from the CAN ids that have at least one subscriber to a sequence of callbacks
SubsOf(subs, id) == IF id \in DOMAIN subs THEN subs[id] ELSE <<>>
InSeq(s, x) == \E i \in 1..Len(s) : s[i] = x
RemoveFirst(s, x) ==
    IF ~InSeq(s, x) THEN s
    ELSE LET i == CHOOSE j \in 1..Len(s) : s[j] = x /\ \A m \in 1..(j - 1) : s[m] # x IN
         SubSeq(s, 1, i - 1) \o SubSeq(s, i + 1, Len(s))
SetSubs(subs, id, lst) ==
    IF lst = <<>> THEN [i \in DOMAIN subs \ {id} |-> subs[i]]
    ELSE [i \in DOMAIN subs \cup {id} |-> IF i = id THEN lst ELSE subs[i]]

Subscribe(subs, id, cb) ==
    IF InSeq(SubsOf(subs, id), cb) THEN subs ELSE SetSubs(subs, id, Append(SubsOf(subs, id), cb))
Unsubscribe(subs, id, cb) == SetSubs(subs, id, RemoveFirst(SubsOf(subs, id), cb))
UnsubscribeAll(subs, id) == SetSubs(subs, id, <<>>)

\* handlers a node registers, in registration order
RemoteHandlers(nid, g) == << <<1408 + nid, <<1, nid, g, 1>>>>, <<1792 + nid, <<1, nid, g, 2>>>>,
                             <<128 + nid, <<1, nid, g, 3>>>>, <<0, <<1, nid, g, 4>>>> >>
LocalHandlers(nid, g) == << <<1536 + nid, <<1, nid, g, 5>>>>, <<0, <<1, nid, g, 6>>>> >>
Handlers(kind, nid, g) == IF kind = "remote" THEN RemoteHandlers(nid, g) ELSE LocalHandlers(nid, g)

RECURSIVE SubAll(_, _)
SubAll(subs, hs) == IF hs = <<>> THEN subs ELSE SubAll(Subscribe(subs, hs[1][1], hs[1][2]), Tail(hs))
RECURSIVE UnsubAll(_, _)
UnsubAll(subs, hs) == IF hs = <<>> THEN subs ELSE UnsubAll(Unsubscribe(subs, hs[1][1], hs[1][2]), Tail(hs))

\* a node leaving the network unsubscribes its handlers one after the other; the first one that is not
\* subscribed any more (the application has unsubscribed it itself) makes the call raise at that point
RECURSIVE UnsubUntilMissing(_, _)
UnsubUntilMissing(subs, hs) ==
    IF hs = <<>> THEN [subs |-> subs, ok |-> TRUE]
    ELSE IF ~InSeq(SubsOf(subs, hs[1][1]), hs[1][2]) THEN [subs |-> subs, ok |-> FALSE]
    ELSE UnsubUntilMissing(Unsubscribe(subs, hs[1][1], hs[1][2]), Tail(hs))

\* nodes : function from node ids present to [kind, gen, extra]
\*   extra: tx COB-IDs of additional SDO channels of a remote node (RemoteNode.add_sdo); their
\*   response handlers are registered after the default channel's and removed with the node
ExtraHandlers(nid, g, extra) == [i \in 1..Len(extra) |-> <<extra[i], <<1, nid, g, 10 + i>>>>]   \* role 10+k: k-th extra channel
AllHandlers(n, nid) ==
    IF n.kind = "remote"
      THEN <<RemoteHandlers(nid, n.gen)[1]>> \o ExtraHandlers(nid, n.gen, n.extra)
           \o SubSeq(RemoteHandlers(nid, n.gen), 2, 4)
      ELSE LocalHandlers(nid, n.gen)
AddNodeX(subs, nodes, kind, nid, g, extra) ==
    LET s1 == IF nid \in DOMAIN nodes THEN UnsubAll(subs, AllHandlers(nodes[nid], nid)) ELSE subs
        n == [kind |-> kind, gen |-> g, extra |-> extra]
    IN [subs |-> SubAll(s1, AllHandlers(n, nid)),
        nodes |-> [i \in DOMAIN nodes \cup {nid} |-> IF i = nid THEN n ELSE nodes[i]]]
AddNode(subs, nodes, kind, nid, g) == AddNodeX(subs, nodes, kind, nid, g, <<>>)
AddSdo(subs, nodes, nid, tx) ==
    [subs |-> Subscribe(subs, tx, <<1, nid, nodes[nid].gen, 11 + Len(nodes[nid].extra)>>),
     nodes |-> [nodes EXCEPT ![nid].extra = Append(nodes[nid].extra, tx)]]
RemoveNode(subs, nodes, nid) ==
    [subs |-> UnsubAll(subs, AllHandlers(nodes[nid], nid)),
     nodes |-> [i \in DOMAIN nodes \ {nid} |-> nodes[i]]]

\* node scanner: predefined connection set services, 11-bit identifiers only
ScanServices == {128, 384, 640, 896, 1152, 1408, 1792}
ScanHit(id) == id <= 2047 /\ (id % 128) # 0 /\ (id - (id % 128)) \in ScanServices
Scan(scan, id) == IF ScanHit(id) /\ ~InSeq(scan, id % 128) THEN Append(scan, id % 128) ELSE scan

\* frame format rule
Extended(id) == id > 2047
=============================================================================
