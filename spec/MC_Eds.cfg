SPECIFICATION Spec
INVARIANT AccOk
INVARIANT Lim2c
INVARIANT RelOk
INVARIANT GenPrint
CHECK_DEADLOCK FALSE
