----------------------------- MODULE Trace_Views -----------------------------
(* C20 trace specification.  Header: fn, fd (factor), K, descs (<<value, name>>), bitdefs           *)
(* (<<name, <<bits>>>>), w (type width in bits).  The state is the raw value behind the variable    *)
(* (SDO: LocalNode.data_store; PDO: PdoMap.data), as a limb integer.                                *)
EXTENDS Views, Json, IOUtils
VInit(t) == [raw |-> Limb(FALSE, <<>>), descs |-> t.descs, fn |-> t.fn, fd |-> t.fd]      \* descs: the description table as it is now
VShow(st) == st
Bad(st, why) == [ok |-> FALSE, why |-> why, st |-> st]
Good(st) == [ok |-> TRUE, why |-> "", st |-> st]
Lim(x) == Limb(x.neg, x.mag)
BitSet(e, t) == IF e.spelling = "name"
                  THEN {t.bitdefs[(CHOOSE i \in 1..Len(t.bitdefs) : t.bitdefs[i][1] = e.name)][2][j]
                         : j \in 1..Len(t.bitdefs[(CHOOSE i \in 1..Len(t.bitdefs) : t.bitdefs[i][1] = e.name)][2])}
                  ELSE {e.bits[j] : j \in 1..Len(e.bits)}
VStep(st, e, t) ==
    CASE e.e = "setraw" -> IF e.ok THEN Good([st EXCEPT !.raw = Lim(e.v)]) ELSE Bad(st, "HARNESS: raw assignment failed")
      [] e.e = "phys_set" ->
           IF ~e.ok THEN Bad(st, "assigning a physical value raised")
           ELSE IF ~NearestRaw(ToInt(Lim(e.after)), e.vn, e.vd, st.fn, st.fd)
             THEN Bad(st, "raw value is not the nearest integer of value / factor")
           ELSE Good([st EXCEPT !.raw = Lim(e.after)])
      [] e.e = "phys_get" ->
           IF ~e.ok THEN Bad(st, "reading the physical value raised")
           ELSE IF ~PhysReadOk(e.P, ToInt(st.raw), st.fn, t.K) THEN Bad(st, "physical value is not raw * factor")
           ELSE Good(st)
      [] e.e = "desc_set" ->
           LET i == ValueOf(st.descs, e.name) IN
           IF i = 0 THEN (IF e.ok THEN Bad(st, "unknown description accepted") ELSE Good(st))
           ELSE IF ~e.ok THEN Bad(st, "assigning a defined description raised")
           ELSE IF ToInt(Lim(e.after)) # st.descs[i][1] THEN Bad(st, "description did not write exactly the value it names")
           ELSE Good([st EXCEPT !.raw = Lim(e.after)])
      [] e.e = "desc_get" ->
           LET i == DescOf(st.descs, ToInt(st.raw)) IN
           IF i = 0 THEN (IF e.ok THEN Bad(st, "description returned for a value that has none") ELSE Good(st))
           ELSE IF ~e.ok THEN Bad(st, "reading the description of a described value raised")
           ELSE IF e.name # st.descs[i][2] THEN Bad(st, "description of the current value is wrong")
           ELSE Good(st)
      [] e.e = "refactor" ->    \* the scaling factor of the entry is changed (fn / fd from now on)
           IF ~e.ok THEN Bad(st, "HARNESS: assigning the factor failed") ELSE Good([st EXCEPT !.fn = e.fn, !.fd = e.fd])
      [] e.e = "redesc" ->      \* the application describes a value anew (or describes one more value)
           LET i == DescOf(st.descs, e.val) IN
           IF ~e.ok THEN Bad(st, "HARNESS: add_value_description failed")
           ELSE Good([st EXCEPT !.descs = IF i = 0 THEN Append(st.descs, <<e.val, e.name>>)
                                           ELSE [st.descs EXCEPT ![i] = <<e.val, e.name>>]])
      [] e.e = "bits_set" ->
           LET bs == BitSet(e, t)
               want == SetField(Bits32(st.raw), bs, Bits32(Lim(e.val)))
           IN IF ~e.ok THEN Bad(st, "assigning a bit field raised")
              ELSE IF Bits32(Lim(e.after)) # want THEN Bad(st, "bit-field assignment did not change exactly those bits")
              ELSE Good([st EXCEPT !.raw = Lim(e.after)])
      [] e.e = "bits_get" ->
           LET bs == BitSet(e, t)
               got == Bits32(Lim(e.val))
           IN IF ~e.ok THEN Bad(st, "reading a bit field raised")
              ELSE IF SubSeq(got, 1, Cardinality(bs)) # FieldOf(Bits32(st.raw), bs)
                      \/ ~AllZero(SubSeq(got, Cardinality(bs) + 1, 32))
                THEN Bad(st, "bit field read does not return those bits")
              ELSE Good(st)
      [] OTHER -> Bad(st, "unknown event")
TraceFile == JsonDeserialize(IOEnv.TRACE_FILE)
VARIABLES tid, l, st
INSTANCE TraceBase WITH TInit <- VInit, TStep <- VStep, TShow <- VShow, Traces <- TraceFile
=============================================================================
