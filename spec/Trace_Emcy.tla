------------------------------ MODULE Trace_Emcy ------------------------------
(* C16 trace specification: after every step the consumer's complete log and active list are      *)
(* logged (as sequences of <<code, reg, data5, ts>>), callbacks log the entries they were given.   *)
EXTENDS Emcy, Json, IOUtils
EInit(t) == [log |-> <<>>, active |-> <<>>]
EShow(st) == [loglen |-> Len(st.log), activelen |-> Len(st.active)]
Bad(st, why) == [ok |-> FALSE, why |-> why, st |-> st]
Good(st) == [ok |-> TRUE, why |-> "", st |-> st]
Proj(s) == [i \in 1..Len(s) |-> <<s[i].code, s[i].reg, s[i].data, s[i].ts>>]
Finish(st, e, new) ==
    IF e.log # Proj(new.log) THEN Bad(st, "log does not hold one entry per frame in arrival order with code/register/data/timestamp")
    ELSE IF e.active # Proj(new.active) THEN Bad(st, "active list is not exactly the entries since the last error reset")
    ELSE Good(new)
EStep(st, e, t) ==
    CASE e.e = "frame" ->
           LET en == Entry(e.d, e.ts)
               new == OnEmcy(st.log, st.active, en)
           IN IF e.raised THEN Bad(st, "on_emcy raised")
              ELSE IF e.cbs # [i \in 1..t.ncb |-> <<i, en.code, en.reg, en.data, en.ts>>]
                THEN Bad(st, "callbacks were not invoked once each, in order, with the new entry")
              ELSE Finish(st, e, new)
      [] e.e = "bframe" ->
           \* frame on another node's EMCY id: only that node's consumer and callback see it
           LET en == Entry(e.d, e.ts) IN
           IF e.raised THEN Bad(st, "on_emcy raised")
           ELSE IF e.cbs # << <<99, en.code, en.reg, en.data, en.ts>> >>
             THEN Bad(st, "a frame of another node did not invoke exactly that node's callbacks")
           ELSE Finish(st, e, st)
      [] e.e = "reset" -> Finish(st, e, [log |-> <<>>, active |-> <<>>])
      [] e.e = "prod" ->
           \* producer on the local node -> bus -> consumer of the remote node
           LET fr == IF e.kind = "reset" THEN ProducerFrame(0, e.reg, e.data)
                     ELSE ProducerFrame(e.code, e.reg, e.data)
               en == Entry(fr, e.ts)
               new == OnEmcy(st.log, st.active, en)
           IN IF e.raised THEN Bad(st, "producer raised")
              ELSE IF e.tx # <<[id |-> 128 + t.nid, d |-> fr]>> THEN Bad(st, "producer frame is not <<code lo, code hi, register, data zero-padded to 5>> on 0x80 + node id")
              ELSE Finish(st, e, new)
      [] e.e = "wait" ->
           \* fed: frames delivered (with timestamps) while the caller(s) were waiting; filter2 / result2:
           \* a second caller waiting at the same time (-2: none)
           LET ents == [i \in 1..Len(e.fed) |-> Entry(e.fed[i][1], e.fed[i][2])]
               \* a frame that arrives after the time-out has expired is logged but never handed over
               ontime(i) == \A m \in 1..i : e.fed[m][3] = 0
               match(f, i) == ontime(i) /\ (f < 0 \/ ents[i].code = f)
               new == [log |-> st.log \o ents,
                       active |-> SinceReset(st.active \o ents)]
               \* (st.active never contains a reset entry, so SinceReset over the concatenation is exact)
               Judge(f, result) ==
                   IF \E i \in 1..Len(ents) : match(f, i)
                     THEN LET j == CHOOSE j \in 1..Len(ents) : match(f, j) /\ \A m \in 1..(j - 1) : ~match(f, m) IN
                          IF result # <<ents[j].code, ents[j].reg, ents[j].data, ents[j].ts>>
                            THEN "wait did not hand over the next matching entry" ELSE ""
                     ELSE IF result # <<>> THEN "wait returned something although no matching entry arrived before the time-out"
                          ELSE ""
               w1 == Judge(e.filter, e.result)
               w2 == IF e.filter2 = -2 THEN "" ELSE Judge(e.filter2, e.result2)
           IN IF w1 # "" THEN Bad(st, w1)
              ELSE IF w2 # "" THEN Bad(st, w2 \o " (second caller waiting at the same time)")
              ELSE Finish(st, e, new)
      [] OTHER -> Bad(st, "unknown event")
TraceFile == JsonDeserialize(IOEnv.TRACE_FILE)
VARIABLES tid, l, st
INSTANCE TraceBase WITH TInit <- EInit, TStep <- EStep, TShow <- EShow, Traces <- TraceFile
=============================================================================
