SPECIFICATION Spec
CONSTANTS
  Periods = {10000, 250000}
  HbTimes = {0, 100, 1000}
  Depth = 25
INVARIANT AtMostOnePerProducer
INVARIANT NoneAfterStop
INVARIANT NoneAfterZeroHeartbeat
INVARIANT DisconnectStopsPdo
INVARIANT HbPayloadIsState
INVARIANT PdoPayloadCurrent
INVARIANT RestartUsesCurrentId
INVARIANT SyncRestartUsesCurrentId
INVARIANT GenPrint

CHECK_DEADLOCK FALSE
