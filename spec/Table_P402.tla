----------------------------- MODULE Table_P402 -----------------------------
(* C19 (i): the state reported by BaseNode402.state for every one of the 65536 statuswords. *)
EXTENDS P402, Json, IOUtils
Rows == JsonDeserialize(IOEnv.TRACE_FILE)
ASSUME \A i \in 1..Len(Rows) :
         Rows[i].state = Decode(Rows[i].sw) \/ PrintT(<<"BADROW", i, "statusword decoded to the wrong CiA 402 state">>)
ASSUME PrintT(<<"TABLE-CHECKED", Len(Rows)>>)
VARIABLE x
Init == x = 0
Next == x' = x
=============================================================================
