------------------------------ MODULE SdoCore ------------------------------
(* CiA 301 SDO expedited / segmented protocol: frame layouts, a reference server (set valued:   *)
(* every response a conformant server may give), the set of legal client frames per protocol    *)
(* step, the object store with access types, value sources and refusal codes.                   *)
(*                                                                                              *)
(* The same operators are used by MC_SdoCore (any legal client against any legal server),      *)
(* Trace_SdoClient (real SdoClient under test, C01/C06/C07) and Trace_SdoServer (real          *)
(* LocalNode/SdoServer under test, C02/C06).                                                    *)
EXTENDS CanBase

NoVal == <<-1>>                 \* "no value" marker for store / value sources

\* ---- abort codes, little-endian as they appear in bytes 5..8 of an abort frame ---------------
AbToggle    == <<0, 0, 3, 5>>      \* 0x05030000
AbTimeout   == <<0, 0, 4, 5>>      \* 0x05040000
AbCommand   == <<1, 0, 4, 5>>      \* 0x05040001
AbWriteOnly == <<1, 0, 1, 6>>      \* 0x06010001
AbReadOnly  == <<2, 0, 1, 6>>      \* 0x06010002
AbNoObject  == <<0, 0, 2, 6>>      \* 0x06020000
AbNoSub     == <<17, 0, 9, 6>>     \* 0x06090011
AbLength    == <<16, 0, 7, 6>>     \* 0x06070010
AbNoData    == <<35, 0, 10, 6>>    \* 0x060A0023
AbGeneral   == <<0, 0, 0, 8>>      \* 0x08000000

\* ---- frame fields --------------------------------------------------------------------------
Cs(f)   == f[1] \div 32                       \* command specifier, bits 7..5
Tg(f)   == (f[1] \div 16) % 2                 \* toggle bit (segments)
MuxB(idx, sub) == <<idx % 256, idx \div 256, sub>>
FIdx(f) == f[2] + 256 * f[3]
FSub(f) == f[4]
IsFrame8(f) == Len(f) = 8 /\ IsByteSeq(f)

AbortFrame(idx, sub, code) == <<128>> \o MuxB(idx, sub) \o code
IsAbort(f) == Len(f) = 8 /\ f[1] = 128
AbortCode(f) == SubSeq(f, 5, 8)

\* client -> server
DlInitExp(idx, sub, d) == <<35 + 4 * (4 - Len(d))>> \o MuxB(idx, sub) \o Pad(d, 4)
DlInitSeg(idx, sub, sz) == IF sz >= 0 THEN <<33>> \o MuxB(idx, sub) \o LE32(sz)
                                      ELSE <<32>> \o MuxB(idx, sub) \o <<0, 0, 0, 0>>
DlSeg(t, d, c) == <<16 * t + 2 * (7 - Len(d)) + c>> \o Pad(d, 7)
UlInit(idx, sub) == <<64>> \o MuxB(idx, sub) \o <<0, 0, 0, 0>>
UlSeg(t) == <<96 + 16 * t, 0, 0, 0, 0, 0, 0, 0>>
\* server -> client
DlInitResp(idx, sub) == <<96>> \o MuxB(idx, sub) \o <<0, 0, 0, 0>>
DlSegResp(t) == <<32 + 16 * t, 0, 0, 0, 0, 0, 0, 0>>
UlInitExp(idx, sub, d) == <<67 + 4 * (4 - Len(d))>> \o MuxB(idx, sub) \o Pad(d, 4)
UlInitExpNoSize(idx, sub, d) == <<66>> \o MuxB(idx, sub) \o d
UlInitSeg(idx, sub, n) == <<65>> \o MuxB(idx, sub) \o LE32(n)
UlInitSegNoSize(idx, sub) == <<64>> \o MuxB(idx, sub) \o <<0, 0, 0, 0>>
UlSegResp(t, d, c) == <<16 * t + 2 * (7 - Len(d)) + c>> \o Pad(d, 7)

\* ---- object dictionary and store -------------------------------------------------------------
\* od : sequence of entries [idx, sub, num (numeric fixed size), size (bytes), acc, def, val, rcb]
\*      arrays additionally carry arr = TRUE on their template entry (sub 1): every sub-index
\*      1..255 of that index then exists with the template's properties (library behaviour that
\*      the properties do not forbid; the drivers do not probe undefined array members).
\* store : [1..Len(od) -> bytes \cup {NoVal}]  (data downloaded so far)
Find(od, idx, sub) ==
    IF \E k \in 1..Len(od) : od[k].idx = idx /\ od[k].sub = sub
      THEN CHOOSE k \in 1..Len(od) : od[k].idx = idx /\ od[k].sub = sub
      ELSE IF \E k \in 1..Len(od) : od[k].idx = idx THEN -2 ELSE -1

Readable(e) == e.acc \in {"rw", "ro", "const", "rwr", "rww"}
Writable(e) == e.acc \in {"rw", "wo", "rwr", "rww"}

\* value precedence: read callback, downloaded data, ParameterValue, DefaultValue
CurVal(od, store, k) ==
    IF od[k].rcb # NoVal THEN od[k].rcb
    ELSE IF store[k] # NoVal THEN store[k]
    ELSE IF od[k].val # NoVal THEN od[k].val
    ELSE od[k].def

ReadRefusals(od, store, idx, sub) ==
    LET k == Find(od, idx, sub) IN
      IF k = -1 THEN {AbNoObject}
      ELSE IF k = -2 THEN {AbNoSub}
      ELSE IF ~Readable(od[k]) THEN {AbWriteOnly}
      ELSE IF CurVal(od, store, k) = NoVal THEN {AbNoData}
      ELSE {}

\* refusals that do not depend on the payload (may already be reported at a segmented initiate)
StaticWriteRefusals(od, idx, sub) ==
    LET k == Find(od, idx, sub) IN
      IF k = -1 THEN {AbNoObject}
      ELSE IF k = -2 THEN {AbNoSub}
      ELSE IF ~Writable(od[k]) THEN {AbReadOnly}
      ELSE {}

WriteRefusals(od, idx, sub, len) ==
    LET k == Find(od, idx, sub) IN
      IF k < 0 THEN StaticWriteRefusals(od, idx, sub)
      ELSE (IF ~Writable(od[k]) THEN {AbReadOnly} ELSE {})
           \cup (IF od[k].num /\ od[k].size # len THEN {AbLength} ELSE {})

\* ---- reference server ------------------------------------------------------------------------
\* sv = [ph, idx, sub, pos, tog]   ph \in {"idle", "ul", "dl"}; the download buffer buf and the
\* store are kept beside it (big values are never copied into sets of outcomes).
SrvIdle == [ph |-> "idle", idx |-> 0, sub |-> 0, pos |-> 0, tog |-> 0]

\* an outcome: responses r (sequence of frames), next server state sv, bytes app appended to the
\* download buffer, commit (0: nothing stored; k > 0: entry k receives buf \o app when whole, else
\* app), free (TRUE: request is out of protocol, the only obligation is one well-formed frame),
\* wild (TRUE: multiplexer bytes of r[1] unconstrained)
Out(r, sv, app, commit, whole) == [r |-> r, sv |-> sv, app |-> app, commit |-> commit,
                                   whole |-> whole, free |-> FALSE, wild |-> FALSE]
Aborts(codes, idx, sub) == {Out(<<AbortFrame(idx, sub, c)>>, SrvIdle, <<>>, 0, FALSE) : c \in codes}
FreeOut(sv) == [r |-> <<>>, sv |-> sv, app |-> <<>>, commit |-> 0, whole |-> FALSE,
                free |-> TRUE, wild |-> FALSE]

UploadInitOuts(od, store, idx, sub) ==
    LET ref == ReadRefusals(od, store, idx, sub) IN
      IF ref # {} THEN Aborts(ref, idx, sub)
      ELSE LET k == Find(od, idx, sub)
               v == CurVal(od, store, k)
               n == Len(v)
               ulst == [ph |-> "ul", idx |-> idx, sub |-> sub, pos |-> 0, tog |-> 0]
           IN  (IF n \in 1..4 THEN {Out(<<UlInitExp(idx, sub, v)>>, SrvIdle, <<>>, 0, FALSE)} ELSE {})
               \cup (IF n = 4 THEN {Out(<<UlInitExpNoSize(idx, sub, v)>>, SrvIdle, <<>>, 0, FALSE)}
                              ELSE {})
               \cup {Out(<<UlInitSeg(idx, sub, n)>>, ulst, <<>>, 0, FALSE),
                     Out(<<UlInitSegNoSize(idx, sub)>>, ulst, <<>>, 0, FALSE)}

UploadSegOuts(sv, od, store, q) ==
    IF Tg(q) # sv.tog THEN Aborts({AbToggle}, sv.idx, sv.sub)
    ELSE LET v == CurVal(od, store, Find(od, sv.idx, sv.sub))
             rem == Len(v) - sv.pos IN
      { Out(<<UlSegResp(sv.tog, SubSeq(v, sv.pos + 1, sv.pos + k), IF k = rem THEN 1 ELSE 0)>>,
            IF k = rem THEN SrvIdle ELSE [sv EXCEPT !.pos = sv.pos + k, !.tog = 1 - sv.tog],
            <<>>, 0, FALSE)
        : k \in {j \in 0..Min2(7, rem) : j >= 1 \/ rem = 0} }

Commit(od, idx, sub, app, total, whole, resp) ==
    LET ref == WriteRefusals(od, idx, sub, total) IN
      IF ref # {} THEN Aborts(ref, idx, sub)
      ELSE {Out(<<resp>>, SrvIdle, app, Find(od, idx, sub), whole)}

DownloadInitOuts(od, q) ==
    LET idx == FIdx(q)
        sub == FSub(q)
        e == (q[1] \div 2) % 2
        s == q[1] % 2
        n == (q[1] \div 4) % 4
    IN IF e = 1
         THEN LET len == IF s = 1 THEN 4 - n ELSE 4 IN
              Commit(od, idx, sub, SubSeq(q, 5, 4 + len), len, FALSE, DlInitResp(idx, sub))
         ELSE LET k == Find(od, idx, sub)
                  early == StaticWriteRefusals(od, idx, sub)
                           \cup (IF k > 0 /\ s = 1 /\ od[k].num
                                    /\ SubSeq(q, 5, 8) # LE32(od[k].size)
                                 THEN {AbLength} ELSE {})
              IN Aborts(early, idx, sub)
                 \cup {Out(<<DlInitResp(idx, sub)>>,
                           [ph |-> "dl", idx |-> idx, sub |-> sub, pos |-> 0, tog |-> 0],
                           <<>>, 0, FALSE)}

\* sv.pos counts the bytes buffered so far during a download
DownloadSegOuts(sv, od, q) ==
    IF Tg(q) # sv.tog THEN Aborts({AbToggle}, sv.idx, sv.sub)
    ELSE LET k == 7 - ((q[1] \div 2) % 8)
             c == q[1] % 2
             app == SubSeq(q, 2, 1 + k)
         IN IF c = 0
              THEN {Out(<<DlSegResp(sv.tog)>>, [sv EXCEPT !.pos = sv.pos + k, !.tog = 1 - sv.tog],
                        app, 0, TRUE)}
              ELSE Commit(od, sv.idx, sv.sub, app, sv.pos + k, TRUE, DlSegResp(sv.tog))

SrvOutcomes(sv, od, store, q) ==
    IF ~IsFrame8(q) THEN {FreeOut(sv)}
    ELSE CASE Cs(q) = 2 -> UploadInitOuts(od, store, FIdx(q), FSub(q))
           [] Cs(q) = 3 -> IF sv.ph = "ul" THEN UploadSegOuts(sv, od, store, q) ELSE {FreeOut(sv)}
           [] Cs(q) = 1 -> DownloadInitOuts(od, q)
           [] Cs(q) = 0 -> IF sv.ph = "dl" THEN DownloadSegOuts(sv, od, q) ELSE {FreeOut(sv)}
           [] Cs(q) = 4 -> {Out(<<>>, SrvIdle, <<>>, 0, FALSE)}
           [] Cs(q) = 5 -> IF q[1] % 4 = 0
                             THEN UploadInitOuts(od, store, FIdx(q), FSub(q))
                                  \cup Aborts({AbCommand}, FIdx(q), FSub(q))
                             ELSE {FreeOut(sv)}
           [] Cs(q) = 6 -> IF q[1] % 2 = 0 THEN Aborts({AbCommand}, FIdx(q), FSub(q))
                                           ELSE {FreeOut(sv)}
           [] OTHER -> IF sv.ph = "idle"
                         THEN {[Out(<<AbortFrame(0, 0, AbCommand)>>, SrvIdle, <<>>, 0, FALSE)
                                  EXCEPT !.wild = TRUE]}
                         ELSE Aborts({AbCommand}, sv.idx, sv.sub)

ZeroMux(f) == [f EXCEPT ![2] = 0, ![3] = 0, ![4] = 0]
OutMatches(o, r) ==
    IF o.wild THEN Len(r) = 1 /\ IsFrame8(r[1]) /\ ZeroMux(r[1]) = ZeroMux(o.r[1])
              ELSE r = o.r

\* effect of an outcome on the download buffer and the store
NewBuf(o, buf) == IF o.sv.ph = "dl" THEN (IF o.whole THEN buf \o o.app ELSE <<>>) ELSE <<>>
Committed(o, buf) == IF o.whole THEN buf \o o.app ELSE o.app
NewStore(o, buf, store) == IF o.commit > 0 THEN [store EXCEPT ![o.commit] = Committed(o, buf)]
                                          ELSE store

\* Judge one request / response-list pair.
\* Returns [ok, why, sv, buf, store, wcb (<<>> or <<k>>: entry whose write callbacks fire), free].
SrvJudge(sv, buf, od, store, q, r) ==
    LET outs == SrvOutcomes(sv, od, store, q) IN
      IF \E o \in outs : o.free
        THEN \* out of protocol: exactly one well-formed response (none required for abort-like)
          LET abortLike == Len(q) >= 1 /\ Cs(q) = 4
              good == IF abortLike THEN Len(r) <= 1 /\ \A i \in 1..Len(r) : IsFrame8(r[i])
                                   ELSE Len(r) = 1 /\ IsFrame8(r[1])
              \* a server that answers the out-of-protocol frame with an abort has aborted the transfer
              \* in progress (if any); otherwise the transfer goes on
              aborted == Len(r) = 1 /\ IsAbort(r[1])
          IN [ok |-> good, why |-> "out-of-protocol request: not exactly one well-formed response",
              sv |-> IF aborted THEN SrvIdle ELSE sv, buf |-> IF aborted THEN <<>> ELSE buf,
              store |-> store, wcb |-> <<>>, free |-> TRUE]
        ELSE IF \E o \in outs : OutMatches(o, r)
          THEN LET o == CHOOSE o \in outs : OutMatches(o, r) IN
               [ok |-> TRUE, why |-> "", sv |-> o.sv, buf |-> NewBuf(o, buf),
                store |-> NewStore(o, buf, store),
                wcb |-> IF o.commit > 0 THEN <<o.commit>> ELSE <<>>, free |-> FALSE]
          ELSE [ok |-> FALSE, why |-> "response is not one a conformant server may give",
                sv |-> sv, buf |-> buf, store |-> store, wcb |-> <<>>, free |-> FALSE]

\* ---- client ----------------------------------------------------------------------------------
\* cl = [ph, op, idx, sub, dlen, size, force, pos, tog, code]; the payload itself is passed separately
\* (trace validation keeps it in the trace constant, not in the state)
\*   ph \in {"idle","dlInit","dlSeg","ulInit","ulSeg","done","aborted","confused"}
CliIdle == [ph |-> "idle", op |-> "none", idx |-> 0, sub |-> 0, dlen |-> 0, size |-> -1,
            force |-> FALSE, pos |-> 0, tog |-> 0, code |-> <<>>]

CliStart(op, idx, sub, dlen, size, force) ==
    [CliIdle EXCEPT !.ph = IF op = "dl" THEN "dlInit" ELSE "ulInit", !.op = op, !.idx = idx,
                    !.sub = sub, !.dlen = dlen, !.size = size, !.force = force]

\* all frames a conformant client may emit in its current step
CliFrames(cl, data) ==
    CASE cl.ph = "dlInit" ->
           {DlInitSeg(cl.idx, cl.sub, cl.size)}
           \cup (IF Len(data) \in 1..4 /\ ~cl.force
                   THEN {DlInitExp(cl.idx, cl.sub, data)} ELSE {})
      [] cl.ph = "dlSeg" ->
           LET rem == Len(data) - cl.pos IN
           { DlSeg(cl.tog, SubSeq(data, cl.pos + 1, cl.pos + kc[1]), kc[2])
             : kc \in { x \in (0..Min2(7, rem)) \X {0, 1} :
                         IF cl.size >= 0
                           THEN (x[2] = 1) = (x[1] = rem) /\ (x[1] >= 1 \/ rem = 0)
                           ELSE IF x[2] = 1 THEN x[1] = rem ELSE x[1] >= 1 } }
      [] cl.ph = "ulInit" -> {UlInit(cl.idx, cl.sub)}
      [] cl.ph = "ulSeg" -> {UlSeg(cl.tog)}
      [] OTHER -> {}

\* advance the client over its own (legal) frame f and the single response frame r
CliAdvance(cl, f, r) ==
    IF IsAbort(r) THEN [cl EXCEPT !.ph = "aborted", !.code = AbortCode(r)]
    ELSE CASE cl.ph = "dlInit" ->
                IF r # DlInitResp(cl.idx, cl.sub) THEN [cl EXCEPT !.ph = "confused"]
                ELSE IF (f[1] \div 2) % 2 = 1 THEN [cl EXCEPT !.ph = "done", !.pos = cl.dlen]
                ELSE [cl EXCEPT !.ph = "dlSeg"]
           [] cl.ph = "dlSeg" ->
                IF r # DlSegResp(cl.tog) THEN [cl EXCEPT !.ph = "confused"]
                ELSE LET k == 7 - ((f[1] \div 2) % 8) IN
                     [cl EXCEPT !.pos = cl.pos + k, !.tog = 1 - cl.tog,
                                !.ph = IF f[1] % 2 = 1 THEN "done" ELSE "dlSeg"]
           [] cl.ph = "ulInit" ->
                IF Cs(r) # 2 \/ FIdx(r) # cl.idx \/ FSub(r) # cl.sub
                  THEN [cl EXCEPT !.ph = "confused"]
                ELSE IF (r[1] \div 2) % 2 = 1
                  THEN LET len == IF r[1] % 2 = 1 THEN 4 - ((r[1] \div 4) % 4) ELSE 4 IN
                       [cl EXCEPT !.ph = "done", !.pos = len]
                ELSE [cl EXCEPT !.ph = "ulSeg"]
           [] cl.ph = "ulSeg" ->
                IF Cs(r) # 0 \/ Tg(r) # cl.tog THEN [cl EXCEPT !.ph = "confused"]
                ELSE LET k == 7 - ((r[1] \div 2) % 8) IN
                     [cl EXCEPT !.pos = cl.pos + k, !.tog = 1 - cl.tog,
                                !.ph = IF r[1] % 2 = 1 THEN "done" ELSE "ulSeg"]
           [] OTHER -> [cl EXCEPT !.ph = "confused"]

\* what an upload must return: the server's bytes; for an entry the client's object dictionary
\* declares as a fixed-size number (odsize >= 0) the declared number of leading bytes
Expected(v, odsize) == IF odsize >= 0 /\ odsize < Len(v) THEN SubSeq(v, 1, odsize) ELSE v
=============================================================================
