------------------------------- MODULE MC_Views -------------------------------
(* Leg A for C20: over an 8-bit raw value: every contiguous bit range x every field value:          *)
(* writing changes exactly those bits and reading returns them; phys: for every raw value and a     *)
(* set of factors the nearest-integer relation is satisfied by exactly the raw value itself when     *)
(* the physical value is raw * factor (no drift on read-modify-write).                              *)
EXTENDS Views
Factors == {<<1, 1>>, <<1, 10>>, <<5, 2>>, <<-3, 7>>, <<25, 1>>}
VARIABLES raw, lo, hi, val, after
vars == <<raw, lo, hi, val, after>>
L(n) == Limb(FALSE, LE32(n))
Init == raw \in 0..255 /\ lo \in 0..7 /\ hi \in 0..7 /\ lo <= hi /\ val = 0 /\ after = raw
Rng == lo..hi
Next == /\ val < 2 ^ (hi - lo + 1) - 1 /\ val' = val + 1
        /\ after' = ULE(BytesOf(SetField(Bits32(L(raw)), Rng, Bits32(L(val + 1)))))
        /\ UNCHANGED <<raw, lo, hi>>
Spec == Init /\ [][Next]_vars
A == IF val = 0 THEN ULE(BytesOf(SetField(Bits32(L(raw)), Rng, Bits32(L(0))))) ELSE after
ReadBack == ULE(BytesOf(Pad(FieldOf(Bits32(L(A)), Rng), 32))) = val
OtherBitsKept == \A b \in 0..7 : b \notin Rng => Bits32(L(A))[b + 1] = Bits32(L(raw))[b + 1]
MatchesArithmetic == A = (raw - ((raw \div 2 ^ lo) % 2 ^ (hi - lo + 1)) * 2 ^ lo) + val * 2 ^ lo
PhysFixpoint == \A f \in Factors : NearestRaw(raw, raw * f[1], f[2], f[1], f[2])
PhysUnique == \A f \in Factors : \A r \in {raw - 1, raw + 1} : ~NearestRaw(r, raw * f[1], f[2], f[1], f[2])
=============================================================================
