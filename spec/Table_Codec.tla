---------------------------- MODULE Table_Codec ----------------------------
(* C04: table validation.  Every row was produced by the real ODVariable.encode_raw /           *)
(* decode_raw / __len__ (or by the harness' own encoder, op "henc"); TLC recomputes the         *)
(* expected outcome with the Codec reference and lists the rows that disagree.                  *)
EXTENDS Codec, Json, IOUtils

Rows == JsonDeserialize(IOEnv.TRACE_FILE)

IsNumType(t) == t \in IntTypes \cup RealTypes \cup {T_BOOLEAN}

RowWhy(r) ==
    CASE r.op \in {"enc", "henc"} ->
           IF Encodable(r.t, r.v)
             THEN IF ~r.ok THEN "value in range was rejected"
                  ELSE IF r.out # Encode(r.t, r.v) THEN "bytes are not the CiA 301 encoding of the value"
                  ELSE ""
             ELSE IF r.ok THEN "value outside the type's range was encoded (wrapped or truncated)"
                  ELSE ""
      [] r.op = "dec" ->
           IF IsNumType(r.t) /\ Len(r.b) # WidthOf(r.t)
             THEN IF r.ok /\ r.v.k \in {"int", "real", "bool"}
                    THEN "byte string of the wrong length was decoded into a number" ELSE ""
             ELSE IF ~r.ok THEN "well-formed bytes were rejected"
                  ELSE IF ~Denotes(r.t, r.v, r.b) THEN "decoded value is not the value the bytes encode"
                  ELSE ""
      [] r.op = "reenc" ->
           IF ~r.ok THEN "decode/encode of a right-length pattern failed"
           ELSE IF r.out # r.b THEN "re-encoding a decoded pattern does not reproduce it" ELSE ""
      [] r.op = "len" ->
           IF r.bits # 8 * WidthOf(r.t) THEN "len() is not the type's width" ELSE ""
      [] OTHER -> "unknown row"

ASSUME \A i \in 1..Len(Rows) :
         LET w == RowWhy(Rows[i]) IN w = "" \/ PrintT(<<"BADROW", i, w>>)
ASSUME PrintT(<<"TABLE-CHECKED", Len(Rows)>>)

VARIABLE x
Init == x = 0
Next == x' = x
=============================================================================
