SPECIFICATION Spec
CONSTANTS
  Ids = {0, 1410, 291}
  Cbs = {1, 2}
  NodeIds = {2, 3}
  MaxGen = 3
  Depth = 6
INVARIANT NoDup
INVARIANT NoEmpty
INVARIANT NoStaleHandler
INVARIANT LiveHandlersPresent
INVARIANT LssKept
VIEW View
CHECK_DEADLOCK FALSE
