------------------------------- MODULE Homing -------------------------------
(* CiA 402 homing mode and fault reset as the library drives them (growth beyond C19):              *)
(*   homing():  op mode := HOMING; state := OPERATION ENABLED; controlword := 0x0F | 0x10 (start);   *)
(*              poll the homing status bits of the statusword until success / error / time-out.      *)
(*   reset_from_fault(): only from FAULT: controlword 0, wait, then walk to OPERATION ENABLED        *)
(*              (the fault-reset edge 0 -> 1 of bit 7 is part of that walk).                         *)
EXTENDS P402

HMask == 13312          \* 0x3400: bits 10 (target reached), 12 (homing attained), 13 (homing error)
HStatus(sw) ==
    LET b == sw & HMask
    IN CASE b = 0 -> "IN PROGRESS" [] b = 1024 -> "INTERRUPTED" [] b = 4096 -> "ATTAINED"
         [] b = 5120 -> "TARGET REACHED" [] b = 8192 -> "ERROR VELOCITY IS NOT ZERO"
         [] b = 9216 -> "ERROR VELOCITY IS ZERO" [] OTHER -> "NONE"
HSuccess(s) == s \in {"ATTAINED", "TARGET REACHED"}
HError(s) == s \in {"INTERRUPTED", "ERROR VELOCITY IS NOT ZERO", "ERROR VELOCITY IS ZERO"}
HBits(s) == CASE s = "IN PROGRESS" -> 0 [] s = "INTERRUPTED" -> 1024 [] s = "ATTAINED" -> 4096
              [] s = "TARGET REACHED" -> 5120 [] s = "ERROR VELOCITY IS NOT ZERO" -> 8192
              [] s = "ERROR VELOCITY IS ZERO" -> 9216 [] OTHER -> 12288

\* the homing start command: rising edge of controlword bit 4 while enabled and in homing mode
StartEdge(cw, prev) == Bit(cw, 4) = 1 /\ Bit(prev, 4) = 0
StartAccepted(drv, mode, cw, prev) == StartEdge(cw, prev) /\ drv = "OPERATION ENABLED" /\ mode = 6
=============================================================================
