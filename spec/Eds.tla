-------------------------------- MODULE Eds --------------------------------
(* CiA 306 electronic data sheets (C08, C14): the MEANING of an abstract EDS/DCF document as an      *)
(* object dictionary, as per-object / per-document judges.                                           *)
(* An abstract document object (dobj) is what an independent writer put into the file; an observed    *)
(* object (oobj) is the projection of the dictionary the library imported.  Lexical matters (INI      *)
(* syntax, number spelling) are the renderer's; the semantics below are: object kind from ObjectType  *)
(* (missing = VAR, 2 = DOMAIN variable), members from sub sections, CompactSubObj expansion, name      *)
(* lists, data / access types, PDO mapping flag, default and parameter values with $NODEID resolved   *)
(* against the node id in force, limits (two's complement for signed types), storage location,        *)
(* factor / unit / description, device information, bit rate, node id, comments, lookups.             *)
EXTENDS Codec

None == [k |-> "none"]
AccLower(a) == CASE a \in {"rw", "RW", "Rw", "rW"} -> "rw" [] a \in {"ro", "RO", "Ro"} -> "ro"
                 [] a \in {"wo", "WO", "Wo"} -> "wo" [] a \in {"const", "CONST", "Const"} -> "const"
                 [] a \in {"rwr", "RWR"} -> "rwr" [] a \in {"rww", "RWW"} -> "rww" [] OTHER -> a

\* small integer -> typed value
IntVal(n) == [k |-> "int", neg |-> (n < 0), mag |-> Strip(LE32(IF n < 0 THEN 0 - n ELSE n))]
NormVal(v) == IF v.k = "int" THEN [k |-> "int", neg |-> Norm(v).neg, mag |-> Norm(v).mag] ELSE v
SameVal(a, b) == NormVal(a) = NormVal(b)

\* meaning of a value token for a variable of type dt; node = node id in force (-1: none)
TokValue(tok, dt, node) ==
    CASE tok.k = "none" -> None
      [] tok.k = "num" -> [k |-> "int", neg |-> tok.v.neg, mag |-> tok.v.mag]
      [] tok.k = "rel" -> IntVal(tok.x + node)
      [] tok.k = "text" -> [k |-> "text", cps |-> tok.cps]
      [] tok.k = "hex" -> [k |-> "bytes", b |-> tok.b]
      [] tok.k = "real" -> tok
      \* "DefaultValue=" with nothing behind it: the empty text / the empty byte string for the string
      \* and domain types, no value for numbers
      [] tok.k = "empty" -> IF dt \in {9, 11} THEN [k |-> "text", cps |-> <<>>]
                            ELSE IF dt \in {10, 15} THEN [k |-> "bytes", b |-> <<>>] ELSE None
      [] OTHER -> None
\* meaning of a limit token: for signed types the file holds the two's complement pattern (raw
\* magnitude tok.v.mag of the type's width) or a plain (possibly negative) decimal number
LimitValue(tok, dt) ==
    IF tok.k = "none" THEN None
    ELSE IF tok.k = "num2c" /\ dt \in SignedTypes
      THEN LET d == DecodeInt(dt, Pad(Strip(tok.v.mag), WidthOf(dt))) IN [k |-> "int", neg |-> d.neg, mag |-> d.mag]
    ELSE [k |-> "int", neg |-> tok.v.neg, mag |-> tok.v.mag]

VarWhy(dv, ov, node, named) ==
    IF named /\ ov.name # dv.name THEN "variable name differs"
    ELSE IF ov.dt # dv.dt THEN "data type differs"
    ELSE IF ov.acc # AccLower(dv.acc) THEN "access type differs"
    ELSE IF ov.pdo # (dv.pdo = 1) THEN "PDO mappability differs"
    ELSE IF ~SameVal(ov.def, TokValue(dv.def, dv.dt, node)) THEN "default value differs"
    ELSE IF ~SameVal(ov.val, TokValue(dv.val, dv.dt, node)) THEN "parameter value differs"
    ELSE IF ov.relative # (dv.def.k = "rel") THEN "relative ($NODEID) flag differs"
    ELSE IF dv.dt \in IntTypes /\ ~SameVal(ov.min, LimitValue(dv.low, dv.dt)) THEN "low limit differs"
    ELSE IF dv.dt \in IntTypes /\ ~SameVal(ov.max, LimitValue(dv.high, dv.dt)) THEN "high limit differs"
    ELSE IF ov.storage # dv.storage THEN "storage location differs"
    ELSE IF ov.unit # dv.unit THEN "unit differs"
    ELSE IF ov.desc # dv.desc THEN "description differs"
    ELSE IF ov.factor # dv.factor THEN "factor differs"
    ELSE ""

KindOf(otype) == CASE otype \in {7, 2, -1} -> "var" [] otype = 8 -> "arr" [] otype = 9 -> "rec" [] OTHER -> "?"

MemberOf(oobj, sub) == IF \E i \in 1..Len(oobj.members) : oobj.members[i].sub = sub
                         THEN oobj.members[CHOOSE i \in 1..Len(oobj.members) : oobj.members[i].sub = sub]
                         ELSE None
FirstBad(f(_), n) == LET bad == {i \in 1..n : f(i) # ""} IN
                       IF bad = {} THEN "" ELSE f(CHOOSE i \in bad : \A j \in bad : i <= j)

\* one object of the document against the imported object
ObjWhy(d, o, node) ==
    IF o.k = "none" THEN "object missing in the imported dictionary"
    ELSE IF o.idx # d.idx THEN "HARNESS: index mismatch"
    ELSE IF o.kind # KindOf(d.otype) THEN "object kind (variable / array / record) differs"
    ELSE IF o.name # d.name THEN "object name differs"
    ELSE IF ~o.byidx \/ ~o.byname THEN "lookup by index / by name does not reach the object"
    ELSE IF o.kind = "var"
      THEN VarWhy(d.var, o.members[1], node, TRUE)
    ELSE IF o.storage # d.storage THEN "storage location of the array / record differs"
    ELSE IF d.compact >= 0
      THEN \* CompactSubObj: sub 0 plus members 1..n of the template's type; names from the name list
           LET DynOf(s) == IF \E i \in 1..Len(o.dyn) : o.dyn[i].sub = s
                             THEN o.dyn[CHOOSE i \in 1..Len(o.dyn) : o.dyn[i].sub = s] ELSE None
               chk(s) == LET m == DynOf(s) IN
                           IF m = None THEN "compact sub-object missing"
                           ELSE IF s <= Len(d.namelist) /\ m.name # d.namelist[s] THEN "compact sub-object name differs from the name list"
                           ELSE IF s <= Len(d.namelist) /\ ~m.dotted THEN "lookup by 'Parent.Child' does not reach the named compact sub-object"
                           \* expanded members share data type, access type, PDO mapping, default value
                           \* and limits with the object description
                           ELSE IF m.dt # d.var.dt THEN "data type differs (compact sub-object)"
                           ELSE IF m.acc # AccLower(d.var.acc) THEN "access type differs (compact sub-object)"
                           ELSE IF m.pdo # (d.var.pdo = 1) THEN "PDO mappability differs (compact sub-object)"
                           ELSE IF ~SameVal(m.def, TokValue(d.var.def, d.var.dt, node)) THEN "default value differs (compact sub-object)"
                           ELSE IF d.var.dt \in IntTypes /\ ~SameVal(m.min, LimitValue(d.var.low, d.var.dt)) THEN "low limit differs"
                           ELSE IF d.var.dt \in IntTypes /\ ~SameVal(m.max, LimitValue(d.var.high, d.var.dt)) THEN "high limit differs"
                           ELSE ""
           IN IF MemberOf(o, 0) = None THEN "compact array lacks sub-index 0"
              ELSE FirstBad(chk, d.compact)
    ELSE IF Len(o.members) # Len(d.members) THEN "number of sub-objects differs"
    ELSE LET chk(i) == LET m == MemberOf(o, d.members[i].sub) IN
                         IF m = None THEN "sub-object missing"
                         ELSE IF ~m.dotted THEN "lookup by 'Parent.Child' does not reach the sub-object"
                         ELSE VarWhy(d.members[i].var, m, node, TRUE)
         IN FirstBad(chk, Len(d.members))

\* document level: node id, bit rate, comments, device information, set of objects
DocWhy(d, o, nodeArg) ==
    LET inForce == IF nodeArg >= 0 THEN nodeArg ELSE d.nodeid_file IN
    IF d.has_dc /\ o.nodeid # inForce THEN "node id differs from the node id in force"
    ELSE IF ~d.has_dc /\ o.nodeid # -1 THEN "node id set although the file has no DeviceComissioning section"
    ELSE IF o.bitrate # (IF d.has_dc /\ d.baud_file > 0 THEN d.baud_file * 1000 ELSE -1) THEN "bit rate differs"
    ELSE IF o.comments # d.comments THEN "comments differ"
    ELSE IF \E i \in 1..Len(d.devinfo) :
              \A j \in 1..Len(o.devinfo) : o.devinfo[j][1] = d.devinfo[i][1] => ~SameVal(o.devinfo[j][2], d.devinfo[i][2])
      THEN "device information differs"
    ELSE IF o.baudrates # d.baudrates THEN "allowed baud rates differ"
    ELSE IF o.indexes # d.indexes THEN "set of object indexes differs"
    ELSE ""

\* ---- C14: round trip ----------------------------------------------------------------------------
MemberRtWhy(a, b, dcf) ==
    IF a.name # b.name THEN "name of a (sub-)object lost or changed"
    ELSE IF a.dt # b.dt THEN "data type lost or changed"
    ELSE IF a.acc # b.acc THEN "access type lost or changed"
    ELSE IF a.pdo # b.pdo THEN "PDO mappability lost or changed"
    ELSE IF ~SameVal(a.def, b.def) THEN "default value lost or changed"
    ELSE IF ~SameVal(a.min, b.min) \/ ~SameVal(a.max, b.max) THEN "limit lost or changed"
    ELSE IF a.storage # b.storage THEN "storage location lost or changed"
    ELSE IF a.factor # b.factor \/ a.unit # b.unit \/ a.desc # b.desc THEN "factor / unit / description lost or changed"
    ELSE IF dcf /\ ~SameVal(a.val, b.val) THEN "parameter value lost or changed (DCF)"
    ELSE ""
RtWhy(a, b, dcf) ==
    IF b.k = "none" THEN "object lost in export / import"
    ELSE IF a.kind # b.kind THEN "object kind changed"
    ELSE IF a.name # b.name THEN "object name changed"
    ELSE IF a.kind # "var" /\ a.storage # b.storage THEN "storage location of array / record lost or changed"
    ELSE IF Len(a.members) # Len(b.members) THEN "number of sub-objects changed"
    ELSE LET chk(i) == LET m == MemberOf(b, a.members[i].sub) IN
                         IF m = None THEN "sub-object lost" ELSE MemberRtWhy(a.members[i], m, dcf)
         IN FirstBad(chk, Len(a.members))
RtDocWhy(a, b, dcf) ==
    IF a.indexes # b.indexes THEN "set of objects changed"
    ELSE IF a.comments # b.comments THEN "comments lost or changed"
    ELSE IF \E i \in 1..Len(a.devinfo) :
              \A j \in 1..Len(b.devinfo) : b.devinfo[j][1] = a.devinfo[i][1] => ~SameVal(b.devinfo[j][2], a.devinfo[i][2])
      THEN "device information lost or changed"
    ELSE IF a.baudrates # b.baudrates THEN "allowed baud rates lost or changed"
    ELSE IF dcf /\ a.bitrate # b.bitrate THEN "bit rate lost or changed (DCF)"
    ELSE IF dcf /\ a.nodeid # b.nodeid THEN "node id lost or changed (DCF)"
    ELSE ""
=============================================================================
