------------------------------- MODULE MC_Emcy -------------------------------
(* Leg A for C16: all histories of EMCY frames / resets up to a depth over codes at the class      *)
(* boundaries: the active list is always exactly the log's entries since the last error-reset       *)
(* entry (or API reset), the log grows by one per frame.                                            *)
EXTENDS Emcy
CONSTANTS Codes, Depth
VARIABLES log, active, n
vars == <<log, active, n>>
Init == log = <<>> /\ active = <<>> /\ n = 0
Frame == \E c \in Codes :
           LET r == OnEmcy(log, active, [code |-> c, reg |-> 1, data |-> <<0, 0, 0, 0, 0>>, ts |-> n]) IN
             log' = r.log /\ active' = r.active /\ n' = n + 1
Reset == log' = <<>> /\ active' = <<>> /\ n' = n + 1
Next == n < Depth /\ (Frame \/ Reset)
Spec == Init /\ [][Next]_vars
ActiveIsSinceReset == active = SinceReset(log)
NoResetInActive == \A i \in 1..Len(active) : ~IsReset(active[i].code)
LogGrows == [][Len(log') = Len(log) + 1 \/ log' = <<>>]_vars
=============================================================================
