-------------------------------- MODULE MC_Nmt --------------------------------
(* Leg A for C11: every sequence of NMT events (commands by master / slave / broadcast / third    *)
(* party with own, broadcast and foreign target, defined and undefined specifiers, heartbeats)    *)
(* up to a depth: states stay within the defined codes unless an undefined heartbeat byte was     *)
(* seen, foreign commands change nothing, a known addressed command makes both views agree.       *)
EXTENDS Nmt, Json
CONSTANTS Nid, Other, Depth, Codes, HbBytes
VARIABLES m, s, depth, last, hist
vars == <<m, s, depth, last, hist>>
View == <<m, s, depth, last>>
Init == m = 0 /\ s = 0 /\ depth = 0 /\ last = "none" /\ hist = <<>>
H(r) == hist' = Append(hist, r) /\ depth' = depth + 1
MasterSends == \E c \in Codes : m' = AfterSend(m, c) /\ s' = OnCommand(s, Nid, c, Nid)
                 /\ last' = (IF c \in Cmds THEN "addressed" ELSE "unknown") /\ H([e |-> "cmd", who |-> "master", code |-> c])
Broadcast == \E c \in Codes : m' = m /\ s' = OnCommand(s, Nid, c, 0) /\ last' = "bcast"
                 /\ H([e |-> "cmd", who |-> "bcast", code |-> c])
SlaveSets == \E c \in Codes : s' = AfterSend(s, c) /\ m' = (IF AfterSend(s, c) = 0 THEN OnHeartbeat(0) ELSE m)
                 /\ last' = "slave" /\ H([e |-> "cmd", who |-> "slave", code |-> c])
Inject == \E c \in Codes, tg \in {Nid, 0, Other} :
             m' = OnCommand(m, Nid, c, tg) /\ s' = OnCommand(s, Nid, c, tg)
             /\ last' = (IF tg = Other THEN "foreign" ELSE "inject") /\ H([e |-> "inject", code |-> c, target |-> tg])
Heartbeat == \E b \in HbBytes : m' = OnHeartbeat(b) /\ s' = s /\ last' = "hb" /\ H([e |-> "hb", byte |-> b])
Next == depth < Depth /\ (MasterSends \/ Broadcast \/ SlaveSets \/ Inject \/ Heartbeat)
Spec == Init /\ [][Next]_vars
SlaveDefined == s \in StateCodes
MasterDefinedUnlessOddHeartbeat == m \in StateCodes \/ m \in {b % 128 : b \in HbBytes}
ForeignChangesNothing == [][last' = "foreign" => (m' = m /\ s' = s)]_vars
AddressedAgree == last = "addressed" => m = s
BootupIsPreop == [][(last' = "hb" /\ hist'[Len(hist')].byte % 128 = 0) => m' = 127]_vars
GenPrint == depth = Depth => PrintT(<<"BEH", ToJson(hist)>>)
=============================================================================
