------------------------------ MODULE Trace_P402 ------------------------------
(* C19 trace specification: BaseNode402.state = target against a CiA 402 drive simulator.           *)
(* Events: init(state)  target(name)  sw(val)  cw(val)  auto  ret  raise(cls)  opmode(...)           *)
(* The library's internal path is free; the drive simulator's reactions are judged by the drive      *)
(* state machine, the outcome by the property.                                                      *)
EXTENDS P402, Json, IOUtils
ZInit(t) == [drv |-> "SWITCH ON DISABLED", prev |-> 0, target |-> "none", ncw |-> 0, start |-> "none",
             pend |-> "none", lastign |-> FALSE]      \* lastign: the drive refused the latest fault reset (cause persists); pend: commanded transition of a slow drive that has not taken effect yet
ZShow(st) == st
Bad(st, why) == [ok |-> FALSE, why |-> why, st |-> st]
Good(st) == [ok |-> TRUE, why |-> "", st |-> st]
MayEnable(tg) == tg \in {"OPERATION ENABLED", "QUICK STOP ACTIVE"}
ZStep(st, e, t) ==
    CASE e.e = "init" -> Good([st EXCEPT !.drv = e.state, !.prev = 0])
      [] e.e = "target" -> Good([st EXCEPT !.target = e.name, !.ncw = 0, !.start = st.drv, !.lastign = FALSE])
      [] e.e = "sw" -> IF Reports(e.val, st.drv) THEN Good(st)
                       ELSE Bad(st, "HARNESS: drive simulator reported a statusword that does not match its state")
      [] e.e = "auto" -> IF HasAuto(st.drv) THEN Good([st EXCEPT !.drv = AutoNext(st.drv)])
                         ELSE Bad(st, "HARNESS: automatic transition from a state that has none")
      [] e.e = "ext" -> Good([st EXCEPT !.drv = e.to, !.pend = "none"])     \* the drive changed state by itself
      [] e.e = "lagged" ->
           IF st.pend = "none" \/ e.to # st.pend THEN Bad(st, "HARNESS: slow drive completed a transition that was not pending")
           ELSE Good([st EXCEPT !.drv = st.pend, !.pend = "none"])
      [] e.e = "cw" ->
           \* (ign: the drive simulator did not act on a fault reset because the cause of the fault persists)
           LET d2 == IF e.ign THEN st.drv ELSE DriveStep(st.drv, e.val, st.prev) IN
           IF e.lag
             THEN \* slow drive: the reaction becomes visible some statusword reads later ("lagged")
                  IF e.after # st.drv THEN Bad(st, "HARNESS: slow drive changed state at once")
                  ELSE IF d2 = "OPERATION ENABLED" /\ st.drv # "OPERATION ENABLED" /\ ~MayEnable(st.target)
                    THEN Bad(st, "operation was enabled although the target is neither OPERATION ENABLED nor QUICK STOP ACTIVE")
                  ELSE Good([st EXCEPT !.prev = e.val, !.ncw = st.ncw + 1, !.lastign = e.ign,
                                       !.pend = IF d2 # st.drv THEN d2 ELSE "none"])
           ELSE IF d2 # e.after THEN Bad(st, "HARNESS: drive simulator reaction differs from the CiA 402 state machine")
           ELSE IF d2 = "OPERATION ENABLED" /\ st.drv # "OPERATION ENABLED" /\ ~MayEnable(st.target)
             THEN Bad(st, "operation was enabled although the target is neither OPERATION ENABLED nor QUICK STOP ACTIVE")
           ELSE Good([st EXCEPT !.drv = d2, !.prev = e.val, !.ncw = st.ncw + 1, !.lastign = e.ign])
      [] e.e = "ret" ->
           IF st.target \in Commandable
             THEN IF st.drv = st.target THEN Good(st)
                  ELSE Bad(st, "state assignment returned although the drive is not in the target state")
             \* the drive is (or got by itself) in that state and nothing was commanded: observation only
             ELSE IF st.drv = st.target /\ st.ncw = 0 THEN Good(st)
                  ELSE Bad(st, "a state that cannot be commanded was accepted")
      [] e.e = "runaway" ->
           Bad(st, "the state assignment did not finish in finitely many steps")
      [] e.e = "raise" ->
           IF st.target \in Commandable
             THEN IF e.cls = "RuntimeError" /\ (HasAuto(st.drv) \/ st.lastign \/ st.pend # "none") THEN Good(st)   \* drive too slow / still refusing the reset: legitimate time-out
                  ELSE Bad(st, "assigning a commandable target state failed (" \o e.cls \o ")")
             ELSE IF st.ncw # 0 THEN Bad(st, "controlword written although the target cannot be commanded")
                  ELSE IF e.cls # "ValueError" THEN Bad(st, "non-commandable target not refused with ValueError")
                  ELSE Good(st)
      [] e.e = "opmode" ->
           IF Supported(e.mask, e.mode)
             THEN IF e.result # "ok" THEN Bad(st, "supported operation mode was refused")
                  ELSE IF e.writes # <<ModeCode(e.mode)>> THEN Bad(st, "operation mode not written as its CiA 402 mode code")
                  ELSE Good(st)
             ELSE IF e.result # "TypeError" THEN Bad(st, "unsupported operation mode was not refused")
                  ELSE IF e.writes # <<>> THEN Bad(st, "unsupported operation mode was written to the drive")
                  ELSE Good(st)
      [] e.e = "opmode_pdo" ->
           \* the drive logged the mode byte of every RPDO it received during the request and the
           \* following state change: an unsupported mode must never reach the drive
           IF Supported(e.mask, e.mode)
             THEN IF e.result # "ok" THEN Bad(st, "supported operation mode was refused")
                  ELSE IF e.seen = <<>> \/ \E i \in 1..Len(e.seen) : e.seen[i] # ModeCode(e.mode)
                    THEN Bad(st, "operation mode not written as its CiA 402 mode code")
                  ELSE Good(st)
             ELSE IF e.result # "TypeError" THEN Bad(st, "unsupported operation mode was not refused")
                  ELSE IF \E i \in 1..Len(e.seen) : e.seen[i] # e.prev
                    THEN Bad(st, "unsupported operation mode was written to the drive")
                  ELSE Good(st)
      [] OTHER -> Bad(st, "unknown event")
TraceFile == JsonDeserialize(IOEnv.TRACE_FILE)
VARIABLES tid, l, st
INSTANCE TraceBase WITH TInit <- ZInit, TStep <- ZStep, TShow <- ZShow, Traces <- TraceFile
=============================================================================
