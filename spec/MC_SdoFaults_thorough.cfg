SPECIFICATION Spec
CONSTANTS
  Lens = {0, 1, 3, 4, 5, 7, 8, 14, 15, 21}
INVARIANT NoSilentCorruption
INVARIANT Recovery
INVARIANT NeverConfusedUndisturbed
PROPERTY Terminates
CHECK_DEADLOCK FALSE
