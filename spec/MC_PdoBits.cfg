SPECIFICATION Spec
CONSTANTS
  MaxFields = 3
  MaxBits = 8
  Full = FALSE
PROPERTY WriteOk
INVARIANT FrameLength
CHECK_DEADLOCK FALSE
