------------------------------ MODULE Trace_Lss ------------------------------
(* C18 trace specification: the real LssMaster against a CiA 305 slave simulator (virtual time).     *)
(* Header: ident (4 x 4 bytes LE), present, nid.  Events:                                            *)
(*   x(q, r)            one request frame and the replies delivered for it (r = <<>>: silence)       *)
(*   scan_ret(ok, id)   fast_scan() returned                                                         *)
(*   svc(name, args, result, val)  a service call returned / raised; its frames precede it as x       *)
EXTENDS Lss, Json, IOUtils
Bits4(b) == BitsOf(b)
LInit(t) == [sl |-> [mode |-> "waiting", ident |-> [k \in 1..4 |-> Bits4(t.ident[k])], pos |-> 0, nid |-> t.nid],
             xs |-> <<>>, id |-> t.ident]
LShow(st) == [mode |-> st.sl.mode, pos |-> st.sl.pos, pending |-> Len(st.xs)]
Bad(st, why) == [ok |-> FALSE, why |-> why, st |-> st]
Good(st) == [ok |-> TRUE, why |-> "", st |-> st]
\* a reply that arrives after the master's time-out is silence for this request
Reply(x) == IF x.r = <<>> \/ x.late THEN <<>> ELSE x.r[1]
LStep(st, e, t) ==
    CASE e.e = "x" ->
           IF ~(Len(e.q) = 8 /\ IsByteSeq(e.q)) THEN Bad(st, "LSS request is not a full 8-byte frame")
           ELSE IF e.id # 2021 THEN Bad(st, "LSS request not sent on the master's COB-ID 0x7E5")
           ELSE IF e.q[1] = 81
             THEN \* fast scan: the slave simulator's reaction is judged by the CiA 305 state machine
                  LET r == IF t.present THEN FastScanStep(st.sl, Bits4(SubSeq(e.q, 2, 5)), e.q[6], e.q[7], e.q[8])
                                        ELSE [answer |-> FALSE, slave |-> st.sl]
                  IN IF e.r # (IF r.answer THEN <<IdentifySlave>> ELSE <<>>)
                       THEN Bad(st, "HARNESS: slave simulator reaction differs from the CiA 305 fast-scan slave")
                       ELSE Good([st EXCEPT !.sl = r.slave, !.xs = Append(st.xs, e)])
           ELSE Good([st EXCEPT !.xs = Append(st.xs, e)])
      [] e.e = "scan_ret" ->
           \* (a device that has a node id does not take part in the fast scan: for the scan it is not there)
           IF t.present /\ st.sl.nid = 255
             THEN IF ~e.ok THEN Bad(st, "fast scan failed although one unconfigured slave is present")
                  ELSE IF e.ident # st.id THEN Bad(st, "fast scan returned a wrong identity")
                  ELSE IF st.sl.mode # "config" THEN Bad(st, "fast scan did not leave the slave in configuration state")
                  ELSE Good([st EXCEPT !.xs = <<>>])
             ELSE IF e.ok THEN Bad(st, "fast scan reported success without a slave") ELSE Good([st EXCEPT !.xs = <<>>])
      [] e.e = "newdev" ->
           \* another unconfigured device takes the place of the one found before
           Good([st EXCEPT !.sl = [mode |-> "waiting", ident |-> [k \in 1..4 |-> Bits4(e.ident[k])], pos |-> 0, nid |-> 255],
                           !.id = e.ident, !.xs = <<>>])
      [] e.e = "svc" ->
           LET xs == st.xs
               n == Len(xs)
               last == IF n > 0 THEN Reply(xs[n]) ELSE <<>>
               done == [st EXCEPT !.xs = <<>>]
               Expect(okcond, val) ==
                   IF okcond THEN (IF e.result = "ok" /\ e.val = val THEN Good(done) ELSE Bad(st, "service did not return the slave's answer"))
                   ELSE (IF e.result = "LssError" THEN Good(done) ELSE Bad(st, "service did not raise LssError on error code / wrong specifier / silence"))
           IN CASE e.name = "switch_global" ->
                     IF n = 1 /\ xs[1].q = Cs1(4, e.args[1], 0) /\ e.result = "ok" THEN Good(done)
                     ELSE Bad(st, "switch state global: wrong frame")
                [] e.name = "configure_node_id" ->
                     IF n # 1 \/ xs[1].q # Cs1(17, e.args[1], 0) THEN Bad(st, "configure node id: wrong frame")
                     ELSE Expect(last # <<>> /\ last[1] = 17 /\ last[2] = 0, <<>>)
                [] e.name = "configure_bit_timing" ->
                     IF n # 1 \/ xs[1].q # Cs1(19, 0, e.args[1]) THEN Bad(st, "configure bit timing: wrong frame")
                     ELSE Expect(last # <<>> /\ last[1] = 19 /\ last[2] = 0, <<>>)
                [] e.name = "store" ->
                     IF n # 1 \/ xs[1].q # Cs1(23, 0, 0) THEN Bad(st, "store configuration: wrong frame")
                     ELSE Expect(last # <<>> /\ last[1] = 23 /\ last[2] = 0, <<>>)
                [] e.name = "activate" ->
                     IF n = 1 /\ xs[1].q = Cs1(21, e.args[1] % 256, e.args[1] \div 256) /\ e.result = "ok" THEN Good(done)
                     ELSE Bad(st, "activate bit timing: wrong frame")
                [] e.name = "inquire_node_id" ->
                     IF n # 1 \/ xs[1].q # Cs1(94, 0, 0) THEN Bad(st, "inquire node id: wrong frame")
                     ELSE Expect(last # <<>> /\ last[1] = 94, IF last # <<>> THEN <<last[2]>> ELSE <<>>)
                [] e.name = "inquire_address" ->
                     IF n # 1 \/ xs[1].q # Cs1(e.args[1], 0, 0) THEN Bad(st, "inquire identity: wrong frame")
                     ELSE Expect(last # <<>> /\ last[1] = e.args[1], IF last # <<>> THEN SubSeq(last, 2, 5) ELSE <<>>)
                [] e.name = "switch_selective" ->
                     IF n # 4 \/ \E k \in 1..4 : xs[k].q # AddrReq(63 + k, e.ids[k])
                       THEN Bad(st, "switch state selective: wrong frames")
                     ELSE Expect(last # <<>>, <<IF last # <<>> /\ last[1] = 68 THEN 1 ELSE 0>>)
                [] e.name = "identify" ->       \* identify remote slave: six frames 0x46..0x4B, each with its own field
                     IF n = 6 /\ (\A k \in 1..6 : xs[k].q = AddrReq(69 + k, e.ids[k])) /\ e.result = "ok" THEN Good(done)
                     ELSE Bad(st, "identify remote slave: wrong frames")
                [] e.name = "identify_nc" ->
                     IF n = 1 /\ xs[1].q = Cs1(76, 0, 0) /\ e.result = "ok" THEN Good(done)
                     ELSE Bad(st, "identify non-configured remote slave: wrong frame")
                [] OTHER -> Bad(st, "unknown service")
      [] OTHER -> Bad(st, "unknown event")
TraceFile == JsonDeserialize(IOEnv.TRACE_FILE)
VARIABLES tid, l, st
INSTANCE TraceBase WITH TInit <- LInit, TStep <- LStep, TShow <- LShow, Traces <- TraceFile
=============================================================================
