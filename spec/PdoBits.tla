------------------------------- MODULE PdoBits -------------------------------
(* PDO bit mapping (C05): a frame is a byte sequence, bit 0 of byte 0 first; a mapped variable     *)
(* occupies bits off+1..off+len (1-based in the bit sequence).  Reading yields the field,          *)
(* sign-extended (signed types) or zero-extended to the object's type width; writing replaces     *)
(* exactly the field's bits by the low len bits of the value's encoding.                          *)
EXTENDS Codec

\* fld = [t, off, len, tlen, signed]
IsSigned(t) == t \in SignedTypes
TypeBits(t) == 8 * WidthOf(t)
Field(t, off, len) == [t |-> t, off |-> off, len |-> len, tlen |-> TypeBits(t), signed |-> IsSigned(t)]

FieldBits(bits, fld) == SubSeq(bits, fld.off + 1, fld.off + fld.len)
ExtBits(f, signed, tlen) ==
    f \o [i \in 1..(tlen - Len(f)) |-> IF signed THEN f[Len(f)] ELSE 0]
\* bytes (type width) denoted by the field
ReadBytes(frame, fld) == BytesOf(ExtBits(FieldBits(BitsOf(frame), fld), fld.signed, fld.tlen))
\* frame after writing the value whose type encoding is vbytes
WriteFrame(frame, fld, vbytes) ==
    LET b == BitsOf(frame)
        vb == BitsOf(vbytes)
    IN BytesOf([i \in 1..Len(b) |-> IF i > fld.off /\ i <= fld.off + fld.len THEN vb[i - fld.off] ELSE b[i]])

\* cumulative offsets of a layout given as a sequence of <<type, len>>
RECURSIVE Offsets(_)
Offsets(lay) == IF lay = <<>> THEN <<>>
                ELSE LET pre == Offsets(SubSeq(lay, 1, Len(lay) - 1)) IN
                     Append(pre, IF pre = <<>> THEN 0 ELSE pre[Len(pre)] + lay[Len(lay) - 1][2])
TotalBits(lay) == IF lay = <<>> THEN 0 ELSE Offsets(lay)[Len(lay)] + lay[Len(lay)][2]
FrameLen(lay) == (TotalBits(lay) + 7) \div 8
=============================================================================
