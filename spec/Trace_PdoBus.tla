----------------------------- MODULE Trace_PdoBus -----------------------------
(* C15 trace specification: a producing node (LocalNode TPDO) and a consuming node (RemoteNode,      *)
(* several maps with distinct or colliding COB-IDs) on two networks joined by an inline bus.         *)
(* Header: lay (sequence of <<type, len>>, shared layout), pcob, cons (sequence of [cob, enabled,    *)
(* rtr, ncb]).  State: producer frame; per consumer map [cob, enabled, rtr, frame, ts, period, rx,   *)
(* cbs].  Events: pset, tx, recfg, rtr, wait, read.                                                 *)
EXTENDS PdoBus, Json, IOUtils
Fld(t, i) == Field(t.lay[i][1], Offsets(t.lay)[i], t.lay[i][2])
UInit(t) == [pframe |-> Zeros(FrameLen(t.lay)),
             cons |-> [k \in 1..Len(t.cons) |->
                         [cob |-> t.cons[k].cob, enabled |-> t.cons[k].enabled, rtr |-> t.cons[k].rtr,
                          ncb |-> t.cons[k].ncb, subs |-> IF t.cons[k].enabled THEN {t.cons[k].cob} ELSE {}, frame |-> Zeros(FrameLen(t.lay)), ts |-> -1,
                          period |-> -1, rx |-> FALSE, cbs |-> 0]]]
UShow(st) == st
Bad(st, why) == [ok |-> FALSE, why |-> why, st |-> st]
Good(st) == [ok |-> TRUE, why |-> "", st |-> st]

Proj(cons) == [k \in 1..Len(cons) |-> [d |-> cons[k].frame, ts |-> cons[k].ts, period |-> cons[k].period,
                                        cbs |-> cons[k].cbs]]
UStep(st, e, t) ==
    CASE e.e = "pset" ->
           LET fld == Fld(t, e.i) IN
           IF ~e.ok THEN Bad(st, "producer: writing a mapped variable raised")
           ELSE IF e.after # WriteFrame(st.pframe, fld, Encode(fld.t, e.v)) THEN Bad(st, "producer frame after write is wrong")
           ELSE Good([st EXCEPT !.pframe = e.after])
      [] e.e = "tx" ->
           LET new == Deliver(st.cons, t.pcob, st.pframe, e.ts) IN
           IF e.frames # <<[id |-> t.pcob, d |-> st.pframe, rtr |-> FALSE, ext |-> t.pcob > 2047]>>
             THEN Bad(st, "transmit did not send exactly the map's COB-ID and current data")
           ELSE IF e.cons # Proj(new) THEN Bad(st, "consumer maps after reception: data / timestamp / period / callbacks differ (only the maps subscribed to the COB-ID may change)")
           ELSE Good([st EXCEPT !.cons = new])
      [] e.e = "inject" ->      \* a foreign frame on some id
           LET new == Deliver(st.cons, e.id, e.d, e.ts) IN
           IF e.cons # Proj(new) THEN Bad(st, "consumer maps after a foreign frame differ")
           ELSE Good([st EXCEPT !.cons = new])
      [] e.e = "read" ->
           LET fld == Fld(t, e.i) IN
           IF ~e.ok THEN Bad(st, "consumer: reading a mapped variable raised")
           ELSE IF ~Denotes(fld.t, e.v, ReadBytes(st.cons[e.k].frame, fld))
             THEN Bad(st, "consumer does not read the value the producer set")
           ELSE Good(st)
      [] e.e = "recfg" ->
           Good([st EXCEPT !.cons[e.k].cob = e.cob, !.cons[e.k].enabled = e.enabled, !.cons[e.k].rtr = e.rtr,
                           !.cons[e.k].subs = IF e.enabled THEN st.cons[e.k].subs \cup {e.cob} ELSE st.cons[e.k].subs])
      [] e.e = "pecho" ->      \* a frame on the producing map's own COB-ID: taken iff the map listens (enabled when subscribed)
           LET new == IF t.psub THEN e.d ELSE st.pframe IN
           IF e.after # new THEN Bad(st, "producer map after a frame on its own COB-ID is wrong")
           ELSE Good([st EXCEPT !.pframe = new])
      [] e.e = "pen" -> Good(st)      \* the producing map's enabled flag: transmit() does not depend on it
      [] e.e = "remap" ->
           LET new == [st.cons EXCEPT ![e.k].frame = Zeros(FrameLen(t.lay))] IN
           IF ~e.ok THEN Bad(st, "consumer: mapping a map anew raised")
           ELSE IF e.cons # Proj(new) THEN Bad(st, "a map was mapped anew: another map lost what it had received (or this one kept stale data)")
           ELSE Good([st EXCEPT !.cons = new])
      [] e.e = "rtr" ->
           LET c == st.cons[e.k] IN
           IF e.frames # (IF c.enabled /\ c.rtr THEN <<[id |-> c.cob, d |-> <<>>, rtr |-> TRUE, ext |-> c.cob > 2047]>> ELSE <<>>)
             THEN Bad(st, "remote request not sent exactly for an enabled map that allows RTR")
           ELSE IF ~e.pdata_kept \/ e.cons # Proj(st.cons)
             THEN Bad(st, "a remote frame was taken for data (producer / consumer maps changed)")
           ELSE Good(st)
      [] e.e = "wait" ->
           \* fed: timestamps of producer transmissions while map k was waiting
           LET c == st.cons[e.k]
               hits == t.pcob \in c.subs /\ c.cob = t.pcob /\ e.fed # <<>>
               RECURSIVE Feed(_, _)
               Feed(cs, i) == IF i > Len(e.fed) THEN cs ELSE Feed(Deliver(cs, t.pcob, st.pframe, e.fed[i]), i + 1)
               new == Feed(st.cons, 1)
           IN IF hits /\ e.result # e.fed[Len(e.fed)] /\ e.result # e.fed[1]
                THEN Bad(st, "wait_for_reception did not return the timestamp of the received frame")
              ELSE IF ~hits /\ e.result # -1 THEN Bad(st, "wait_for_reception returned although nothing was received")
              ELSE IF e.cons # Proj(new) THEN Bad(st, "consumer maps after wait differ")
              ELSE Good([st EXCEPT !.cons = new])
      [] OTHER -> Bad(st, "unknown event")
TraceFile == JsonDeserialize(IOEnv.TRACE_FILE)
VARIABLES tid, l, st
INSTANCE TraceBase WITH TInit <- UInit, TStep <- UStep, TShow <- UShow, Traces <- TraceFile
=============================================================================
