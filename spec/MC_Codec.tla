------------------------------ MODULE MC_Codec ------------------------------
(* Sanity of the reference itself (leg A of C04): for the 8- and 16-bit types, over ALL values,  *)
(* Decode(Encode(v)) = v, Encode(Decode(b)) = b, exactly width bytes, range edges rejected.       *)
(* The values are enumerated as states so that the run reports the explored space.               *)
EXTENDS Codec

VARIABLES t, n
Types == {T_INTEGER8, T_UNSIGNED8, T_INTEGER16, T_UNSIGNED16}
Lo(ty) == CASE ty = T_INTEGER8 -> -128 [] ty = T_INTEGER16 -> -32768 [] OTHER -> 0
Hi(ty) == CASE ty = T_INTEGER8 -> 127 [] ty = T_INTEGER16 -> 32767 [] ty = T_UNSIGNED8 -> 255
            [] OTHER -> 65535
Abs(i) == IF i < 0 THEN -i ELSE i
L(i) == Limb(i < 0, LE32(Abs(i)))
Init == t \in Types /\ n = Lo(t) - 2
Next == n < Hi(t) + 2 /\ n' = n + 1 /\ t' = t
RoundTrip == (n >= Lo(t) /\ n <= Hi(t)) =>
               /\ InRange(t, L(n))
               /\ Len(EncodeInt(t, L(n))) = WidthOf(t)
               /\ DecodeInt(t, EncodeInt(t, L(n))) = L(n)
               /\ EncodeInt(t, DecodeInt(t, EncodeInt(t, L(n)))) = EncodeInt(t, L(n))
               /\ ULE(EncodeInt(t, L(n))) = (IF n < 0 THEN n + 2 ^ (8 * WidthOf(t)) ELSE n)
Edges == (n < Lo(t) \/ n > Hi(t)) => ~InRange(t, L(n))
=============================================================================
