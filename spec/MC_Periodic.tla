----------------------------- MODULE MC_Periodic -----------------------------
(* Leg A for C17: all call sequences up to a depth over the four producers; the model of a bus    *)
(* (a bag of live tasks maintained by start/stop exactly as the producers' API contract says)     *)
(* keeps AtMostOnePerProducer, NoneAfterStop, NoneAfterZeroHeartbeat, DisconnectStopsPdo.         *)
EXTENDS Periodic, Json
CONSTANTS Periods, HbTimes, Depth
VARIABLES pr, depth, last, hist
vars == <<pr, depth, last, hist>>
View == <<pr, depth, last>>
Init == pr = PInit(385, 1) /\ depth = 0 /\ last = "none" /\ hist = <<>>
Do(p, name, rec) == pr' = p /\ depth' = depth + 1 /\ last' = name /\ hist' = Append(hist, rec)
Next == /\ depth < Depth
        /\ \/ \E p \in Periods \cup {0} : Do(SyncStart(pr, p).pr, "sync_start", [op |-> "sync_start", period_us |-> p])
           \/ Do(SyncStop(pr), "sync_stop", [op |-> "sync_stop"])
           \/ \E id \in {128, 129} : Do(SyncSetCob(pr, id), "sync_cob", [op |-> "sync_cob", id |-> id])
           \/ \E p \in Periods \cup {0} : Do(PdoStart(pr, p).pr, "pdo_start", [op |-> "pdo_start", period_us |-> p])
           \/ Do(PdoStop(pr), "pdo_stop", [op |-> "pdo_stop"])
           \/ \E id \in {385, 641} : Do(PdoSetCob(pr, id), "pdo_cob", [op |-> "pdo_cob", id |-> id])
           \/ \E d \in {<<1, 2>>, <<3, 4>>} : Do(PdoSetData(pr, d), "pdo_set", [op |-> "pdo_set", d |-> d])
           \/ \E ms \in HbTimes : Do(HbStart(pr, ms), "hb_start", [op |-> "hb_start", ms |-> ms])
           \/ Do(HbStop(pr), "hb_stop", [op |-> "hb_stop"])
           \/ \E ms \in HbTimes : Do(Write1017(pr, ms), "write1017", [op |-> "write1017", ms |-> ms])
           \/ \E s \in {0, 4, 5, 127}, api \in BOOLEAN : Do(NmtTo(pr, s, api), "nmt", [op |-> "nmt", state |-> s, api |-> api])
           \/ \E p \in Periods : Do(NgStart(pr, p), "ng_start", [op |-> "ng_start", period_us |-> p])
           \/ Do(NgStop(pr), "ng_stop", [op |-> "ng_stop"])
           \/ Do(Disconnect(pr), "disconnect", [op |-> "disconnect"])
Spec == Init /\ [][Next]_vars
AtMostOnePerProducer == Cardinality(Expected(pr)) <= 4
NoneAfterStop == /\ last = "sync_stop" => pr.sync = Off
                 /\ last = "pdo_stop" => pr.pdo = Off
                 /\ last = "hb_stop" => pr.hb = Off
                 /\ last = "ng_stop" => pr.ng = Off
NoneAfterZeroHeartbeat == (last = "write1017" /\ pr.od1017 = 0) => pr.hb = Off
DisconnectStopsPdo == last = "disconnect" => pr.pdo = Off
HbPayloadIsState == pr.hb # Off => pr.hb.d = <<pr.hbState>>
RestartUsesCurrentId == last = "pdo_start" /\ pr.pdo # Off => pr.pdo.id = pr.pdoId
SyncRestartUsesCurrentId == last = "sync_start" /\ pr.sync # Off => pr.sync.id = pr.syncId
PdoPayloadCurrent == pr.pdo # Off => pr.pdo.d = pr.pdoData
GenPrint == depth = Depth => PrintT(<<"BEH", ToJson(hist)>>)
=============================================================================
