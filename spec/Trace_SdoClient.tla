-------------------------- MODULE Trace_SdoClient --------------------------
(* Trace specification for the real SdoClient (expedited / segmented) talking to the reference  *)
(* server simulator: C01 (legal frames, exact bytes), client side of C06 (abort code exposed),  *)
(* C07 (single disturbance: loud failure, time-out abort, no poisoning of the next transfer).   *)
(* Events:                                                                                      *)
(*   call   op idx sub data size force odsize     a transfer is requested through the API       *)
(*   x      q r dlv fault      request frame q emitted, reference server answered r, the bus    *)
(*                             delivered dlv (= r unless the harness disturbed the exchange)    *)
(*   inject d                  a stale frame is delivered to the client outside an exchange     *)
(*   ret    data               the call returned (upload result)                                *)
(*   raise  cls code           the call raised (abort / comm / other)                           *)
(*   hang                      the call did not return (watchdog)                               *)
EXTENDS SdoCore, Json, IOUtils

\* st = [cl, sv, store, odsize, dist, expTO, busy, ci]   ci: index of the current call event
CInit(t) == [cl |-> CliIdle, sv |-> SrvIdle, buf |-> <<>>, store |-> [k \in 1..Len(t.od) |-> NoVal],
             odsize |-> -1, dist |-> FALSE, expTO |-> FALSE, busy |-> FALSE, ci |-> 0]
CShow(st) == [cl |-> st.cl, sv |-> st.sv, buflen |-> Len(st.buf),
              dist |-> st.dist, expTO |-> st.expTO, busy |-> st.busy]

Bad(st, why) == [ok |-> FALSE, why |-> why, st |-> st]
Good(st) == [ok |-> TRUE, why |-> "", st |-> st]

OnCall(st, e, n) ==
    IF st.busy THEN Bad(st, "call while a call is pending")
    ELSE Good([st EXCEPT !.cl = CliStart(e.op, e.idx, e.sub, Len(e.data), e.size, e.force), !.ci = n,
                         !.odsize = e.odsize, !.dist = FALSE, !.expTO = FALSE, !.busy = TRUE])

OnX(st, e, od, data, realsrv) ==
    LET forced == e.fault \in {"abort", "refuse"}
        \* a forced abort: the server refuses the request without executing it
        j == IF forced THEN [ok |-> Len(e.r) = 1 /\ IsAbort(e.r[1]), why |-> "forced abort is not an abort frame",
                             sv |-> SrvIdle, buf |-> <<>>, store |-> st.store, wcb |-> <<>>, free |-> FALSE]
             ELSE SrvJudge(st.sv, st.buf, od, st.store, e.q, e.r) IN
    IF ~st.busy THEN Bad(st, "frame emitted outside a call")
    ELSE IF ~IsFrame8(e.q) THEN Bad(st, "client frame is not 8 bytes")
    ELSE IF ~j.ok THEN Bad(st, (IF realsrv THEN "the library's own server (LocalNode): " ELSE "HARNESS: reference server response rejected: ") \o j.why)
    ELSE IF st.expTO /\ ~(e.q[1] = 128 /\ AbortCode(e.q) = AbTimeout)
      THEN Bad(st, "lost response not followed by an abort frame with the time-out code")
    ELSE LET st1 == [st EXCEPT !.sv = j.sv, !.buf = j.buf, !.store = j.store, !.expTO = FALSE] IN
      IF st.dist
        THEN \* already disturbed: frames need only be well formed; follow the server
             Good([st1 EXCEPT !.expTO = (e.fault \in {"drop", "late"})])
        \* (a download segment without data that is not the last one is legal CiA 301, if pointless: it
        \*  is what write(b"") on the unbuffered stream produces; the design model does not generate it)
        ELSE IF e.q \notin CliFrames(st.cl, data)
                /\ ~(st.cl.ph = "dlSeg" /\ Len(data) > st.cl.pos /\ e.q = DlSeg(st.cl.tog, <<>>, 0))
          THEN Bad(st, "client frame is not legal for the current protocol step")
        ELSE IF j.free \/ Len(e.r) # 1
          THEN Bad(st, "HARNESS: undisturbed legal client frame was out of protocol for the server")
        ELSE IF e.fault = "none"
          THEN IF e.dlv # e.r THEN Bad(st, "HARNESS: delivery differs without a fault")
               ELSE Good([st1 EXCEPT !.cl = CliAdvance(st.cl, e.q, e.r[1])])
          ELSE IF e.fault = "refuse"
            \* the peer refuses this request with an abort frame (any 32-bit code): the client is
            \* aborted with exactly that code and must not emit further frames for this transfer
            THEN IF Len(e.dlv) = 1 /\ IsAbort(e.dlv[1])
                   THEN Good([st1 EXCEPT !.cl = CliAdvance(st.cl, e.q, e.dlv[1])])
                   ELSE Bad(st, "HARNESS: refuse without abort frame")
          ELSE Good([st1 EXCEPT !.dist = TRUE, !.expTO = (e.fault \in {"drop", "late"})])

DlCorrect(st, od, data) ==
    LET k == Find(od, st.cl.idx, st.cl.sub) IN k > 0 /\ st.store[k] = data
UlCorrect(st, od, data) ==
    LET k == Find(od, st.cl.idx, st.cl.sub) IN
      k > 0 /\ CurVal(od, st.store, k) # NoVal
      /\ data = Expected(CurVal(od, st.store, k), st.odsize)

OnRet(st, e, od, data) ==
    IF ~st.busy THEN Bad(st, "return without call")
    ELSE IF st.expTO THEN Bad(st, "call returned normally although a response was lost")
    ELSE IF ~st.dist /\ st.cl.ph # "done"
      THEN Bad(st, "call returned before the protocol was complete")
    ELSE IF st.cl.op = "dl" /\ ~DlCorrect(st, od, data)
      THEN Bad(st, "download returned normally but the server does not hold exactly the payload")
    ELSE IF st.cl.op = "ul" /\ ~UlCorrect(st, od, e.data)
      THEN Bad(st, "upload returned data that differs from the server's value")
    ELSE Good([st EXCEPT !.busy = FALSE, !.cl = CliIdle])

OnRaise(st, e) ==
    IF ~st.busy THEN Bad(st, "raise without call")
    ELSE IF e.cls = "other" THEN Bad(st, "call raised something that is not an SDO error")
    ELSE IF st.expTO THEN Bad(st, "call failed after a lost response without sending the time-out abort")
    ELSE IF st.dist THEN Good([st EXCEPT !.busy = FALSE, !.cl = CliIdle])
    ELSE IF st.cl.ph # "aborted" THEN Bad(st, "undisturbed transfer raised without an abort from the server")
    ELSE IF e.cls # "abort" THEN Bad(st, "server abort not reported as SdoAbortedError")
    ELSE IF e.code # st.cl.code THEN Bad(st, "SdoAbortedError.code differs from the received abort code")
    ELSE Good([st EXCEPT !.busy = FALSE, !.cl = CliIdle])

\* position of the event in the trace: the call event's index is kept in st.ci so that the
\* payload is read from the trace constant instead of being copied into every state
CStep(st, e, t) ==
    LET data == IF st.ci > 0 THEN t.ev[st.ci].data ELSE <<>> IN
    CASE e.e = "call" -> OnCall(st, e, e.n)
      [] e.e = "x" -> OnX(st, e, t.od, data, "realsrv" \in DOMAIN t /\ t.realsrv)
      [] e.e = "inject" -> IF st.busy THEN Bad(st, "HARNESS: inject during a call") ELSE Good(st)
      [] e.e = "ret" -> OnRet(st, e, t.od, data)
      [] e.e = "raise" -> OnRaise(st, e)
      [] e.e = "hang" -> Bad(st, "call did not return (hang)")
      [] OTHER -> Bad(st, "unknown event")

TraceFile == JsonDeserialize(IOEnv.TRACE_FILE)
VARIABLES tid, l, st
INSTANCE TraceBase WITH TInit <- CInit, TStep <- CStep, TShow <- CShow, Traces <- TraceFile
=============================================================================
