------------------------------ MODULE Table_Eds ------------------------------
(* C08 / C14 table validation: one row per object / per document / per comparison. *)
EXTENDS Eds, Json, IOUtils
Rows == JsonDeserialize(IOEnv.TRACE_FILE)
RowWhy(r) ==
    CASE r.kind = "obj" -> ObjWhy(r.d, r.o, r.node)
      [] r.kind = "doc" -> DocWhy(r.d, r.o, r.nodearg)
      [] r.kind = "same" -> IF r.a = r.b THEN "" ELSE "the export destination changes the document"
      [] r.kind = "rt" -> RtWhy(r.a, r.b, r.dcf)
      [] r.kind = "rtdoc" -> RtDocWhy(r.a, r.b, r.dcf)
      [] OTHER -> "unknown row"
ASSUME \A i \in 1..Len(Rows) : LET w == RowWhy(Rows[i]) IN w = "" \/ PrintT(<<"BADROW", i, w>>)
ASSUME PrintT(<<"TABLE-CHECKED", Len(Rows)>>)
VARIABLE x
Init == x = 0
Next == x' = x
=============================================================================
