------------------------------- MODULE PdoBus -------------------------------
(* PDO transport between a producing and a consuming node (C15): reception bookkeeping of the       *)
(* consumer's maps.  A consumer map is [cob, enabled, rtr, ncb, subs, frame, ts, period, rx, cbs];    *)
(* subs = CAN ids the map has been subscribed to (subscribing happens while the map is enabled and  *)
(* is never undone by reconfiguration); a frame is taken iff its id is subscribed and equals cob.   *)
EXTENDS PdoBits
\* consumer side effect of a data frame (id, d) with timestamp ts
Deliver(cons, id, d, ts) ==
    [k \in 1..Len(cons) |->
       IF id \in cons[k].subs /\ cons[k].cob = id
         THEN [cons[k] EXCEPT !.frame = d, !.period = IF cons[k].ts >= 0 THEN ts - cons[k].ts ELSE cons[k].period,
                              !.ts = ts, !.rx = TRUE, !.cbs = cons[k].cbs + cons[k].ncb]
         ELSE cons[k]]
=============================================================================
