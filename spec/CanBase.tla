------------------------------ MODULE CanBase ------------------------------
(* Bytes, little-endian fields, bit sequences and small helpers shared by every CANopen module. *)
(* Everything >= 2^31 is represented structurally (byte / bit sequences), never as an integer.  *)
EXTENDS Naturals, Integers, Sequences, FiniteSets, TLC, Bitwise, SequencesExt

Byte == 0..255

Min2(a, b) == IF a <= b THEN a ELSE b
Max2(a, b) == IF a >= b THEN a ELSE b

IsByteSeq(s) == /\ DOMAIN s = 1..Len(s)
                /\ \A i \in 1..Len(s) : s[i] \in Byte

Zeros(n) == [i \in 1..n |-> 0]
Pad(d, n) == IF Len(d) >= n THEN d ELSE d \o Zeros(n - Len(d))
Take(s, n) == SubSeq(s, 1, Min2(n, Len(s)))
Drop(s, n) == SubSeq(s, n + 1, Len(s))
AllZero(s) == \A i \in 1..Len(s) : s[i] = 0

LE16(n) == <<n % 256, (n \div 256) % 256>>
LE32(n) == <<n % 256, (n \div 256) % 256, (n \div 65536) % 256, (n \div 16777216) % 256>>
U16(s) == s[1] + 256 * s[2]
\* value of a little-endian byte sequence; only used where the result is known to be < 2^31
RECURSIVE ULE(_)
ULE(s) == IF s = <<>> THEN 0 ELSE s[1] + 256 * ULE(Tail(s))
\* a 4-byte little-endian field is "small" (< 2^31) when its top bit is clear
Small32(s) == Len(s) = 4 /\ s[4] < 128

\* bits of a byte sequence, bit 0 of byte 0 first
BitOfByte(b, i) == (b \div (2 ^ i)) % 2
BitsOf(s) == [i \in 1..(8 * Len(s)) |-> BitOfByte(s[((i - 1) \div 8) + 1], (i - 1) % 8)]
ByteOfBits(b, k) == \* k-th byte (1-based) of a bit sequence whose length is a multiple of 8
    LET o == 8 * (k - 1) IN
      b[o + 1] + 2 * b[o + 2] + 4 * b[o + 3] + 8 * b[o + 4] + 16 * b[o + 5] + 32 * b[o + 6]
      + 64 * b[o + 7] + 128 * b[o + 8]
BytesOf(b) == [k \in 1..(Len(b) \div 8) |-> ByteOfBits(b, k)]

\* CRC-16/XMODEM (poly 0x1021, init 0, MSB first) as used by SDO block transfer, table driven
CrcShift(c) == IF c >= 32768 THEN ((c - 32768) * 2) ^^ 4129 ELSE c * 2
CrcTab == [b \in 0..255 |->
             CrcShift(CrcShift(CrcShift(CrcShift(CrcShift(CrcShift(CrcShift(CrcShift(b * 256))))))))]
CrcStep(crc, byte) == ((crc % 256) * 256) ^^ CrcTab[(crc \div 256) ^^ byte]
Crc16(data) == FoldLeft(CrcStep, 0, data)
=============================================================================
