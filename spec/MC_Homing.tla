------------------------------ MODULE MC_Homing ------------------------------
(* Design-level model of homing(): library steps against a conformant drive whose homing run takes   *)
(* Delay status polls and ends in Outcome.  Checked: the start command is only given to an enabled   *)
(* drive in homing mode, the result is TRUE exactly for a successful outcome reached before the      *)
(* poll budget is used up, and the procedure always terminates.                                      *)
EXTENDS Homing
CONSTANTS MaxDelay, Budget
Outcomes == {"ATTAINED", "TARGET REACHED", "INTERRUPTED", "ERROR VELOCITY IS NOT ZERO", "ERROR VELOCITY IS ZERO"}
VARIABLES pc, drv, mode, prev, run, delay, outcome, polls, result, supported
vars == <<pc, drv, mode, prev, run, delay, outcome, polls, result, supported>>

Init == /\ pc = "setmode" /\ drv \in {"SWITCH ON DISABLED", "READY TO SWITCH ON", "SWITCHED ON", "OPERATION ENABLED", "QUICK STOP ACTIVE"}
        /\ mode \in {0, 1, 6} /\ prev = 0 /\ run = "idle" /\ delay \in 0..MaxDelay
        /\ outcome \in Outcomes /\ polls = 0 /\ result = "none" /\ supported \in BOOLEAN

Write(cw) == /\ drv' = DriveStep(drv, cw, prev) /\ prev' = cw
             /\ run' = IF StartAccepted(drv, mode, cw, prev) /\ run = "idle" THEN "running" ELSE run

SetMode == /\ pc = "setmode"
           /\ IF supported THEN mode' = 6 ELSE mode' = mode      \* refused modes are not written (C19)
           /\ pc' = "enable" /\ UNCHANGED <<drv, prev, run, delay, outcome, polls, result, supported>>
\* state := OPERATION ENABLED, one controlword per step along the library's path
Enable == /\ pc = "enable"
          /\ IF drv = "OPERATION ENABLED" THEN pc' = "start" /\ UNCHANGED <<drv, prev, run>>
             ELSE /\ pc' = "enable"
                  /\ Write(CASE drv = "SWITCH ON DISABLED" -> 6 [] drv = "READY TO SWITCH ON" -> 7
                             [] drv = "SWITCHED ON" -> 15 [] drv = "QUICK STOP ACTIVE" -> 15 [] OTHER -> 0)
          /\ UNCHANGED <<mode, delay, outcome, polls, result, supported>>
Start == /\ pc = "start" /\ Write(31) /\ pc' = "poll"
         /\ UNCHANGED <<mode, delay, outcome, polls, result, supported>>
Shown == IF run = "running" /\ polls >= delay THEN outcome ELSE "IN PROGRESS"
Poll == /\ pc = "poll"
        /\ polls' = polls + 1
        /\ IF HSuccess(Shown) THEN pc' = "ret" /\ result' = "true"
           ELSE IF HError(Shown) THEN pc' = "ret" /\ result' = "false"
           ELSE IF polls >= Budget THEN pc' = "ret" /\ result' = "false"
           ELSE pc' = "poll" /\ result' = result
        /\ UNCHANGED <<drv, mode, prev, run, delay, outcome, supported>>
Done == pc = "ret" /\ UNCHANGED vars
Next == SetMode \/ Enable \/ Start \/ Poll \/ Done
Spec == Init /\ [][Next]_vars /\ WF_vars(Next)

TypeOK == pc \in {"setmode", "enable", "start", "poll", "ret"} /\ result \in {"none", "true", "false"}
\* the start command reaches the drive only when it can act on it
StartOnlyWhenEnabled == [][(pc = "start" /\ pc' = "poll") => drv = "OPERATION ENABLED"]_vars
\* result: TRUE exactly when the run was accepted, ends successfully and within the budget
ResultRight == pc = "ret" =>
    (result = "true" <=> (run = "running" /\ HSuccess(outcome) /\ delay <= Budget))
\* a drive that is not in homing mode never homes: the library must not claim success
NoSuccessWithoutMode == (pc = "ret" /\ mode # 6) => result = "false"
Terminates == <>(pc = "ret")
=============================================================================
