----------------------------- MODULE TraceBase -----------------------------
(* Batch trace validation skeleton shared by every Trace_* module.                              *)
(*   Traces : sequence of records, each with a field ev (sequence of events)                    *)
(*   a Trace_* module defines  TInit(t) (initial specification state for trace record t),       *)
(*   TStep(st, e, t) = [ok |-> BOOLEAN, why |-> STRING, st |-> next state]  (deterministic: all *)
(*   inputs and outputs of the implementation are logged, freedom of the specification is a     *)
(*   predicate over the logged value), TShow(st) (a small printable projection of the state)    *)
(*   and instantiates this module.                                                              *)
(* Acceptance: register tid holds the highest event index matched for trace tid; the            *)
(* postcondition prints <<"REJECT", tid, l, why, state>> for every trace not matched to its end. *)
EXTENDS Naturals, Sequences, SequencesExt, TLC, TLCExt, Json, IOUtils

CONSTANTS TInit(_), TStep(_, _, _), TShow(_), Traces

NT == Len(Traces)

VARIABLES tid, l, st

Init == /\ tid \in 1..NT
        /\ l = 1
        /\ st = TInit(Traces[tid])
        /\ TLCSet(tid, 1)

Next == /\ l <= Len(Traces[tid].ev)
        /\ LET r == TStep(st, Traces[tid].ev[l], Traces[tid]) IN
             /\ r.ok
             /\ st' = r.st
        /\ l' = l + 1
        /\ tid' = tid

Record == IF l > TLCGet(tid) THEN TLCSet(tid, l) ELSE TRUE

\* specification state after the first n events of trace t (only evaluated for rejected traces)
StateAfter(t, n) == FoldLeft(LAMBDA acc, e : TStep(acc, e, Traces[t]).st, TInit(Traces[t]),
                             SubSeq(Traces[t].ev, 1, n))

Accepted ==
    /\ \A t \in 1..NT :
         LET m == TLCGet(t) IN
           \/ m = Len(Traces[t].ev) + 1
           \/ LET s == StateAfter(t, m - 1) IN
                PrintT(<<"REJECT", t, m, TStep(s, Traces[t].ev[m], Traces[t]).why, TShow(s)>>)
    /\ PrintT(<<"TRACES-CHECKED", NT>>)
=============================================================================
