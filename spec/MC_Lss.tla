-------------------------------- MODULE MC_Lss --------------------------------
(* Leg A for C18: the fast-scan search (the library's algorithm, width parametric: one request per    *)
(* bit from the top, a confirm request per part) against the CiA 305 slave for EVERY identity of      *)
(* 4 x W bits: it ends with exactly the slave's identity and the slave in configuration state; with   *)
(* no slave it reports failure.                                                                       *)
EXTENDS Lss
CONSTANTS W
VARIABLES sl, present, id, sub, bc, ph, next, result
vars == <<sl, present, id, sub, bc, ph, next, result>>
BitSeqs == [1..W -> {0, 1}]
Zero == [k \in 1..W |-> 0]
Init == /\ present \in BOOLEAN
        /\ sl \in {[mode |-> "waiting", ident |-> <<a, b, c, d>>, pos |-> 0, nid |-> 255] :
                     a \in BitSeqs, b \in BitSeqs, c \in BitSeqs, d \in BitSeqs}
        /\ id = <<Zero, Zero, Zero, Zero>> /\ sub = 0 /\ bc = 128 /\ ph = "probe" /\ next = 0 /\ result = "none"
Ask(idbits, b, s, n) == IF present THEN FastScanStep(sl, idbits, b, s, n) ELSE [answer |-> FALSE, slave |-> sl]
Probe == /\ ph = "probe"
         /\ LET r == Ask(Zero, 128, 0, 0) IN
              /\ sl' = r.slave
              /\ IF r.answer THEN ph' = "bits" /\ bc' = W - 1 /\ result' = result
                             ELSE ph' = "done" /\ bc' = bc /\ result' = "fail"
         /\ UNCHANGED <<present, id, sub, next>>
Bit == /\ ph = "bits"
       /\ LET r == Ask(id[sub + 1], bc, sub, next) IN
            /\ sl' = r.slave
            /\ id' = IF r.answer THEN id ELSE [id EXCEPT ![sub + 1][bc + 1] = 1]
       /\ IF bc = 0 THEN ph' = "confirm" /\ bc' = 0 ELSE ph' = "bits" /\ bc' = bc - 1
       /\ UNCHANGED <<present, sub, next, result>>
Confirm == /\ ph = "confirm"
           /\ LET n == (sub + 1) % 4
                  r == Ask(id[sub + 1], 0, sub, n) IN
                /\ sl' = r.slave
                /\ IF ~r.answer THEN ph' = "done" /\ result' = "fail" /\ sub' = sub /\ next' = next /\ bc' = bc
                   ELSE IF sub = 3 THEN ph' = "done" /\ result' = "ok" /\ sub' = sub /\ next' = n /\ bc' = bc
                   ELSE ph' = "bits" /\ result' = result /\ sub' = sub + 1 /\ next' = n /\ bc' = W - 1
           /\ UNCHANGED <<present, id>>
Next == Probe \/ Bit \/ Confirm
Spec == Init /\ [][Next]_vars /\ WF_vars(Next)
FastScanCorrect == ph = "done" =>
    IF present THEN result = "ok" /\ id = sl.ident /\ sl.mode = "config" ELSE result = "fail"
Terminates == <>(ph = "done")
=============================================================================
