SPECIFICATION Spec
CONSTANTS MaxDelay = 4
          Budget = 3
INVARIANT TypeOK
INVARIANT ResultRight
INVARIANT NoSuccessWithoutMode
PROPERTY StartOnlyWhenEnabled
PROPERTY Terminates
CHECK_DEADLOCK FALSE
