------------------------------ MODULE Trace_Nmt ------------------------------
(* C11 trace specification.  A master (RemoteNode.nmt) and a slave (LocalNode.nmt) with the same  *)
(* node id sit on two networks joined by an inline bus; after every step both reported state      *)
(* names and all frames emitted during the step are logged.                                       *)
EXTENDS Nmt, Json, IOUtils

TInit0(t) == [m |-> 0, s |-> 0]
TShow0(st) == st
Bad(st, why) == [ok |-> FALSE, why |-> why, st |-> st]
Good(st) == [ok |-> TRUE, why |-> "", st |-> st]

\* frames: sequence of [side, id, d]
Finish(st, e, new, frames) ==
    IF e.frames # frames THEN Bad(st, "frames emitted differ from the CiA 301 NMT frames for " \o e.e)
    ELSE IF ~NameOk(e.mname, new.m) THEN Bad(st, "master reports the wrong state after " \o e.e)
    ELSE IF ~NameOk(e.sname, new.s) THEN Bad(st, "slave reports the wrong state after " \o e.e)
    ELSE Good(new)

MasterCmd(st, e, t, code) ==
    \* the master sends <<code, nid>> on CAN id 0, the slave (inline) reacts
    Finish(st, e, [m |-> AfterSend(st.m, code), s |-> OnCommand(st.s, t.nid, code, t.nid)],
           <<[side |-> "master", id |-> 0, d |-> <<code, t.nid>>]>>)

SlaveCmd(st, e, t, code) ==
    LET s2 == AfterSend(st.s, code)
        boot == s2 = 0
    IN Finish(st, e, [m |-> IF boot THEN OnHeartbeat(0) ELSE st.m, s |-> s2],
              IF boot THEN <<[side |-> "slave", id |-> 1792 + t.nid, d |-> <<0>>]>> ELSE <<>>)

XStep(st, e, t) ==
    IF "crash" \in DOMAIN e THEN Bad(st, "state assignment raised something other than ValueError")
    ELSE IF e.e \in {"inject", "hb"} /\ e.raised THEN Bad(st, "receiving an NMT / heartbeat frame raised")
    ELSE
    CASE e.e = "cmd" ->
           IF e.raised THEN Bad(st, "send_command raised")
           ELSE IF e.who = "master" THEN MasterCmd(st, e, t, e.code)
           ELSE IF e.who = "slave" THEN SlaveCmd(st, e, t, e.code)
           ELSE \* broadcast by the network's own NMT master (node id 0)
                Finish(st, e, [m |-> st.m, s |-> OnCommand(st.s, t.nid, e.code, 0)],
                       <<[side |-> "master", id |-> 0, d |-> <<e.code, 0>>]>>)
      [] e.e = "guard" -> IF e.raised THEN Bad(st, "node guarding start / stop raised") ELSE Finish(st, e, st, <<>>)
      [] e.e = "inject" ->      \* a command frame from a third party reaches both networks
           Finish(st, e, [m |-> OnCommand(st.m, t.nid, e.code, e.target),
                          s |-> OnCommand(st.s, t.nid, e.code, e.target)], <<>>)
      [] e.e = "set" ->
           IF ~ValidName(e.name)
             THEN IF ~e.raised THEN Bad(st, "invalid state name was accepted")
                  ELSE Finish(st, e, st, <<>>)
           ELSE IF e.raised THEN Bad(st, "valid state name was rejected")
           ELSE IF e.who = "master" THEN MasterCmd(st, e, t, NameToCmd(e.name))
           ELSE SlaveCmd(st, e, t, NameToCmd(e.name))
      [] e.e = "hb" ->
           \* every heartbeat callback sees the state byte without the toggle bit, once, in order
           IF e.cbs # << <<1, e.byte % 128>>, <<2, e.byte % 128>> >>
             THEN Bad(st, "heartbeat callbacks were not invoked once each, in order, with the reported state")
           ELSE Finish(st, e, [st EXCEPT !.m = OnHeartbeat(e.byte)], <<>>)
      [] e.e = "wait" ->
           \* fed: heartbeat bytes delivered while the caller was waiting
           \* inj: a command frame of a third party that reached both networks while the caller was
           \* already waiting (<<>> = none); it changes the states like any such frame, but it is not
           \* a heartbeat: the wait goes on
           LET st0 == IF e.inj = <<>> THEN st
                      ELSE [m |-> OnCommand(st.m, t.nid, e.inj[1], e.inj[2]), s |-> OnCommand(st.s, t.nid, e.inj[1], e.inj[2])]
               after == IF e.fed = <<>> THEN st0.m ELSE OnHeartbeat(e.fed[Len(e.fed)])
               new == [st0 EXCEPT !.m = after]
           IN IF e.early THEN Bad(st, "the wait failed with NmtError before its time-out had run out")
              ELSE IF e.slow THEN Bad(st, "wait_for_heartbeat did not return on the message: it slept on for more than half its time-out")
              ELSE IF e.kind = "hb"
                THEN IF e.fed = <<>>
                       THEN IF e.result # "NmtError" THEN Bad(st, "wait_for_heartbeat without heartbeat did not fail with NmtError")
                            ELSE Finish(st, e, new, <<>>)
                       ELSE IF e.result # StateName(OnHeartbeat(e.fed[1])) /\ OnHeartbeat(e.fed[1]) \in StateCodes
                              THEN Bad(st, "wait_for_heartbeat did not return the state of the next heartbeat")
                            ELSE Finish(st, e, new, <<>>)
                \* a boot-up message counts when it arrives before the caller's deadline
                ELSE IF \E i \in 1..Len(e.fed) : e.fed[i] % 128 = 0 /\ \A j \in 1..i : e.late[j] = 0
                       THEN IF e.result # "ok" THEN Bad(st, "wait_for_bootup did not return on the boot-up message")
                            ELSE Finish(st, e, new, <<>>)
                       ELSE IF e.result # "NmtError" THEN Bad(st, "wait_for_bootup without boot-up before the deadline did not fail with NmtError")
                            ELSE Finish(st, e, new, <<>>)
      [] OTHER -> Bad(st, "unknown event")

TraceFile == JsonDeserialize(IOEnv.TRACE_FILE)
VARIABLES tid, l, st
INSTANCE TraceBase WITH TInit <- TInit0, TStep <- XStep, TShow <- TShow0, Traces <- TraceFile
=============================================================================
