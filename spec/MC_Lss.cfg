SPECIFICATION Spec
CONSTANTS
  W = 3
INVARIANT FastScanCorrect
PROPERTY Terminates
CHECK_DEADLOCK FALSE
