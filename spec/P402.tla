-------------------------------- MODULE P402 --------------------------------
(* CiA 402 (C19): statusword decoding, drive power state machine with command decoding by mask and   *)
(* automatic transitions, operation mode codes and the supported-modes mask.                         *)
EXTENDS Naturals, Integers, Sequences, FiniteSets, TLC, Bitwise

States == {"NOT READY TO SWITCH ON", "SWITCH ON DISABLED", "READY TO SWITCH ON", "SWITCHED ON",
           "OPERATION ENABLED", "QUICK STOP ACTIVE", "FAULT REACTION ACTIVE", "FAULT"}
Commandable == {"SWITCH ON DISABLED", "READY TO SWITCH ON", "SWITCHED ON", "OPERATION ENABLED", "QUICK STOP ACTIVE"}

\* statusword -> state  (xxxx xxxx x0xx 0000 etc.)
Decode(sw) ==
    LET m4f == sw & 79
        m6f == sw & 111
    IN CASE m4f = 0 -> "NOT READY TO SWITCH ON"
         [] m4f = 64 -> "SWITCH ON DISABLED"
         [] m6f = 33 -> "READY TO SWITCH ON"
         [] m6f = 35 -> "SWITCHED ON"
         [] m6f = 39 -> "OPERATION ENABLED"
         [] m6f = 7 -> "QUICK STOP ACTIVE"
         [] m4f = 15 -> "FAULT REACTION ACTIVE"
         [] m4f = 8 -> "FAULT"
         [] OTHER -> "UNKNOWN"
BaseSw(s) == CASE s = "NOT READY TO SWITCH ON" -> 0 [] s = "SWITCH ON DISABLED" -> 64
               [] s = "READY TO SWITCH ON" -> 33 [] s = "SWITCHED ON" -> 35 [] s = "OPERATION ENABLED" -> 39
               [] s = "QUICK STOP ACTIVE" -> 7 [] s = "FAULT REACTION ACTIVE" -> 15 [] s = "FAULT" -> 8
\* does statusword sw report state s (don't-care bits arbitrary)?
Reports(sw, s) == Decode(sw) = s

Bit(x, k) == (x \div (2 ^ k)) % 2
\* drive reaction to a controlword (prev = previous controlword, for the fault-reset edge)
DriveStep(s, cw, prev) ==
    LET dv == Bit(cw, 1) = 0                                     \* disable voltage   xxxx xx0x
        qs == Bit(cw, 1) = 1 /\ Bit(cw, 2) = 0                    \* quick stop        xxxx x01x
        sd == Bit(cw, 0) = 0 /\ Bit(cw, 1) = 1 /\ Bit(cw, 2) = 1  \* shutdown          xxxx x110
        so == cw % 16 = 7                                         \* switch on / disable operation
        eo == cw % 16 = 15                                        \* (switch on +) enable operation
        reset == Bit(cw, 7) = 1 /\ Bit(prev, 7) = 0
    IN CASE s = "FAULT" -> IF reset THEN "SWITCH ON DISABLED" ELSE s
         [] s = "SWITCH ON DISABLED" -> IF sd THEN "READY TO SWITCH ON" ELSE s
         [] s = "READY TO SWITCH ON" -> IF dv \/ qs THEN "SWITCH ON DISABLED"
                                        ELSE IF so THEN "SWITCHED ON"
                                        ELSE IF eo THEN "OPERATION ENABLED" ELSE s
         [] s = "SWITCHED ON" -> IF dv \/ qs THEN "SWITCH ON DISABLED"
                                 ELSE IF sd THEN "READY TO SWITCH ON"
                                 ELSE IF eo THEN "OPERATION ENABLED" ELSE s
         [] s = "OPERATION ENABLED" -> IF dv THEN "SWITCH ON DISABLED"
                                       ELSE IF qs THEN "QUICK STOP ACTIVE"
                                       ELSE IF sd THEN "READY TO SWITCH ON"
                                       ELSE IF so THEN "SWITCHED ON" ELSE s
         [] s = "QUICK STOP ACTIVE" -> IF dv THEN "SWITCH ON DISABLED"
                                       ELSE IF eo THEN "OPERATION ENABLED" ELSE s
         [] OTHER -> s                \* NOT READY TO SWITCH ON, FAULT REACTION ACTIVE: commands ignored
AutoNext(s) == CASE s = "NOT READY TO SWITCH ON" -> "SWITCH ON DISABLED"
                 [] s = "FAULT REACTION ACTIVE" -> "FAULT" [] OTHER -> s
HasAuto(s) == AutoNext(s) # s

\* operation modes
ModeCode(m) == CASE m = "NO MODE" -> 0 [] m = "PROFILED POSITION" -> 1 [] m = "VELOCITY" -> 2
                 [] m = "PROFILED VELOCITY" -> 3 [] m = "PROFILED TORQUE" -> 4 [] m = "HOMING" -> 6
                 [] m = "INTERPOLATED POSITION" -> 7 [] m = "CYCLIC SYNCHRONOUS POSITION" -> 8
                 [] m = "CYCLIC SYNCHRONOUS VELOCITY" -> 9 [] m = "CYCLIC SYNCHRONOUS TORQUE" -> 10
ModeBit(m) == CASE m = "NO MODE" -> -1 [] m = "PROFILED POSITION" -> 0 [] m = "VELOCITY" -> 1
                [] m = "PROFILED VELOCITY" -> 2 [] m = "PROFILED TORQUE" -> 3 [] m = "HOMING" -> 5
                [] m = "INTERPOLATED POSITION" -> 6 [] m = "CYCLIC SYNCHRONOUS POSITION" -> 7
                [] m = "CYCLIC SYNCHRONOUS VELOCITY" -> 8 [] m = "CYCLIC SYNCHRONOUS TORQUE" -> 9
\* mask16: low 16 bits of object 0x6502
Supported(mask16, m) == ModeBit(m) < 0 \/ Bit(mask16, ModeBit(m)) = 1
=============================================================================
