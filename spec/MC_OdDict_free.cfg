SPECIFICATION Spec
CONSTANTS Indexes = {1, 2, 3}
          Names = {"a", "b", "c"}
          Disciplined = FALSE
INVARIANT Mirror
INVARIANT NoPartialDelete
INVARIANT LookupsAgree
INVARIANT LengthCountsObjects
PROPERTY DeleteRemovesExactly
CHECK_DEADLOCK FALSE
