------------------------------ MODULE Trace_Bus ------------------------------
(* C03: typed values survive  client -> bus -> server -> client.                                *)
(* N nodes on one bus; for every node id a real SdoClient (RemoteNode) and a real SdoServer      *)
(* (LocalNode) are BOTH under test, this specification is the third party.  Per node the         *)
(* SdoCore client and server machines are tracked; requests and responses are separate events    *)
(* (they may be interleaved with other nodes' traffic, unrelated frames, and delivered by        *)
(* another thread).  Typed values are judged with the Codec reference.                          *)
(* Events: call(node, op, idx, sub, t, v)  q(node, d)  r(node, d)  ret(node, v)                  *)
(*         local(node, idx, sub, t, b, v)  noise(id, d)  raise(node)                             *)
EXTENDS SdoCore, Codec, Json, IOUtils

NodeInit(t) == [cl |-> CliIdle, sv |-> SrvIdle, buf |-> <<>>,
                store |-> [k \in 1..Len(t.od) |-> NoVal], data |-> <<>>, pend |-> <<>>,
                op |-> "none", ty |-> 0, busy |-> FALSE]
BInit(t) == [i \in 1..t.maxnode |-> NodeInit(t)]
BShow(st) == [i \in DOMAIN st |-> [cl |-> st[i].cl, sv |-> st[i].sv, busy |-> st[i].busy,
                                    pend |-> st[i].pend, datalen |-> Len(st[i].data)]]

Bad(st, why) == [ok |-> FALSE, why |-> why, st |-> st]
Good(st) == [ok |-> TRUE, why |-> "", st |-> st]
Upd(st, n, s) == Good([st EXCEPT ![n] = s])

BStep(st, e, t) ==
    IF e.e = "noise" THEN Good(st)
    ELSE IF e.e = "noise_raise" THEN Bad(st, "a frame of unrelated bus traffic raised into the receive path")
    ELSE LET n == e.node
             s == st[n]
             od == t.od
             k == Find(od, s.cl.idx, s.cl.sub)
    IN CASE e.e = "call" ->
              IF s.busy THEN Bad(st, "call while busy")
              ELSE IF e.op = "set"
                THEN IF ~Encodable(e.t, e.v) THEN Bad(st, "HARNESS: value not encodable")
                     ELSE LET d == Encode(e.t, e.v) IN
                          Upd(st, n, [s EXCEPT !.cl = CliStart("dl", e.idx, e.sub, Len(d), Len(d),
                                                                e.t = T_DOMAIN),
                                               !.data = d, !.op = "set", !.ty = e.t, !.busy = TRUE])
                ELSE Upd(st, n, [s EXCEPT !.cl = CliStart("ul", e.idx, e.sub, 0, -1, FALSE),
                                          !.data = <<>>, !.op = "get", !.ty = e.t, !.busy = TRUE])
         [] e.e = "q" ->
              IF ~s.busy THEN Bad(st, "request frame outside a call")
              ELSE IF s.pend # <<>> THEN Bad(st, "second request before the response")
              ELSE IF e.d \notin CliFrames(s.cl, s.data)
                THEN Bad(st, "client frame is not legal for the current protocol step")
              ELSE Upd(st, n, [s EXCEPT !.pend = e.d])
         [] e.e = "r" ->
              IF s.pend = <<>> THEN Bad(st, "response without request")
              ELSE LET j == SrvJudge(s.sv, s.buf, od, s.store, s.pend, <<e.d>>) IN
                   IF ~j.ok \/ j.free THEN Bad(st, "server: " \o j.why)
                   ELSE Upd(st, n, [s EXCEPT !.sv = j.sv, !.buf = j.buf, !.store = j.store,
                                             !.cl = CliAdvance(s.cl, s.pend, e.d), !.pend = <<>>])
         [] e.e = "ret" ->
              IF ~s.busy \/ s.cl.ph # "done" THEN Bad(st, "call returned before the protocol completed")
              ELSE IF s.op = "set"
                THEN IF k > 0 /\ s.store[k] = s.data
                       THEN Upd(st, n, [s EXCEPT !.busy = FALSE, !.cl = CliIdle])
                       ELSE Bad(st, "server does not hold the CiA 301 encoding of the assigned value")
                ELSE IF k > 0 /\ Denotes(s.ty, e.v, CurVal(od, s.store, k))
                       THEN Upd(st, n, [s EXCEPT !.busy = FALSE, !.cl = CliIdle])
                       ELSE Bad(st, "value read back through SDO is not the value the server holds")
         [] e.e = "local" ->
              LET kk == Find(od, e.idx, e.sub) IN
              IF kk <= 0 THEN Bad(st, "HARNESS: unknown entry")
              ELSE IF e.b # s.store[kk] THEN Bad(st, "local node's data_store differs from the transferred bytes")
              ELSE IF ~Denotes(e.t, e.v, e.b) THEN Bad(st, "value read on the local node is not the value its bytes encode")
              ELSE Good(st)
         [] e.e = "raise" -> Bad(st, "typed access raised")
         [] OTHER -> Bad(st, "unknown event")

TraceFile == JsonDeserialize(IOEnv.TRACE_FILE)
VARIABLES tid, l, st
INSTANCE TraceBase WITH TInit <- BInit, TStep <- BStep, TShow <- BShow, Traces <- TraceFile
=============================================================================
