---------------------------- MODULE Trace_PdoBits ----------------------------
(* C05 trace specification.  Header: lay = sequence of <<type, len>>.  Events:                      *)
(*   add(i, off, length, datalen)  the real PdoMap.add_variable result                             *)
(*   setframe(d)                   arbitrary frame content is installed                            *)
(*   write(i, v, ok, after)        var.raw = v ; frame afterwards                                   *)
(*   read(i, v, ok)                var.raw                                                          *)
EXTENDS PdoBits, Json, IOUtils
BInit0(t) == [frame |-> Zeros(FrameLen(t.lay))]
BShow0(st) == st
Bad(st, why) == [ok |-> FALSE, why |-> why, st |-> st]
Good(st) == [ok |-> TRUE, why |-> "", st |-> st]
Fld(t, i) == Field(t.lay[i][1], Offsets(t.lay)[i], t.lay[i][2])
PStep(st, e, t) ==
    CASE e.e = "add" ->
           IF e.off # Offsets(t.lay)[e.i] \/ e.length # t.lay[e.i][2]
             THEN Bad(st, "add_variable: wrong bit offset / length")
           ELSE IF e.datalen # FrameLen(SubSeq(t.lay, 1, e.i)) THEN Bad(st, "frame length is not ceil(total bits / 8)")
           ELSE Good(st)
      [] e.e = "setframe" -> IF Len(e.d) # FrameLen(t.lay) THEN Bad(st, "HARNESS: frame length") ELSE Good([frame |-> e.d])
      [] e.e = "write" ->
           LET fld == Fld(t, e.i) IN
           IF Encodable(fld.t, e.v)
             THEN IF ~e.ok THEN Bad(st, "writing a value of the object's type raised")
                  ELSE IF e.after # WriteFrame(st.frame, fld, Encode(fld.t, e.v))
                    THEN Bad(st, "write did not change exactly the field's bits to the value's low bits")
                  ELSE Good([frame |-> e.after])
             ELSE IF e.ok THEN Bad(st, "value outside the object's type was written")
                  ELSE IF e.after # st.frame THEN Bad(st, "refused write changed the frame")
                  ELSE Good(st)
      [] e.e = "read" ->
           LET fld == Fld(t, e.i) IN
           IF ~e.ok THEN Bad(st, "reading a mapped variable raised")
           ELSE IF ~Denotes(fld.t, e.v, ReadBytes(st.frame, fld))
             THEN Bad(st, "read value is not the (sign-extended) value of the variable's bit field")
           ELSE Good(st)
      [] OTHER -> Bad(st, "unknown event")
TraceFile == JsonDeserialize(IOEnv.TRACE_FILE)
VARIABLES tid, l, st
INSTANCE TraceBase WITH TInit <- BInit0, TStep <- PStep, TShow <- BShow0, Traces <- TraceFile
=============================================================================
