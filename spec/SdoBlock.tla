------------------------------ MODULE SdoBlock ------------------------------
(* CiA 301 SDO block download and block upload: frame layouts, legality of the client's frames   *)
(* (the library is the client), reference server semantics (sub-block acknowledge, in-order      *)
(* acceptance, retransmission, CRC-16, end of transfer), loss / corruption bookkeeping.         *)
(* Used by MC_SdoBlock (exhaustive, small) and Trace_SdoBlock (traces of the real streams).      *)
EXTENDS SdoCore

\* ---- frames ------------------------------------------------------------------------------------
BdInit(idx, sub, size, crc) ==
    <<192 + (IF crc THEN 4 ELSE 0) + (IF size >= 0 THEN 2 ELSE 0)>> \o MuxB(idx, sub)
    \o (IF size >= 0 THEN LE32(size) ELSE <<0, 0, 0, 0>>)
IsBdInitResp(r, idx, sub) ==
    /\ IsFrame8(r) /\ r[1] \in {160, 164} /\ FIdx(r) = idx /\ FSub(r) = sub
    /\ r[5] \in 1..127 /\ r[6] = 0 /\ r[7] = 0 /\ r[8] = 0
SegSeq(q) == q[1] % 128
SegLast(q) == q[1] \div 128
BlkAck(a, b) == <<162, a, b, 0, 0, 0, 0, 0>>
BdEnd(n, crc) == <<193 + 4 * n, crc % 256, crc \div 256, 0, 0, 0, 0, 0>>
BdEndResp == <<161, 0, 0, 0, 0, 0, 0, 0>>

BuInit(idx, sub, crc, blk, pst) ==
    <<160 + (IF crc THEN 4 ELSE 0)>> \o MuxB(idx, sub) \o <<blk, pst, 0, 0>>
IsBuInitResp(r, idx, sub, n) ==       \* size indicated (s = 1) with the true size, or not indicated
    /\ IsFrame8(r) /\ FIdx(r) = idx /\ FSub(r) = sub
    /\ \/ r[1] \in {194, 198} /\ SubSeq(r, 5, 8) = LE32(n)
       \/ r[1] \in {192, 196} /\ SubSeq(r, 5, 8) = <<0, 0, 0, 0>>
BuStart == <<163, 0, 0, 0, 0, 0, 0, 0>>
BuEnd(n, crc) == <<193 + 4 * n, crc % 256, crc \div 256, 0, 0, 0, 0, 0>>
BuEndResp == <<161, 0, 0, 0, 0, 0, 0, 0>>

NSegs(len) == (len + 6) \div 7                  \* segments needed for len >= 1 bytes
LastLen(len) == len - 7 * (NSegs(len) - 1)      \* bytes in the final segment, 1..7

\* the k-th (0-based) 7-byte segment of data as it must appear on the wire (padding free)
SegPayloadOk(q, data, pos) ==
    LET rem == Len(data) - pos IN
      IF rem > 7 THEN SegLast(q) = 0 /\ SubSeq(q, 2, 8) = SubSeq(data, pos + 1, pos + 7)
      ELSE rem >= 1 /\ SegLast(q) = 1 /\ SubSeq(q, 2, 1 + rem) = SubSeq(data, pos + 1, pos + rem)

\* ---- block download: bookkeeping shared by client view and reference server -------------------
\* bd = [ph, idx, sub, dlen, size, crcReq, crcOn, B, base, sent, fin, got, sfin, lossBlk, losses]
\*   base: payload offset of the current sub-block;  sent / fin: what the client transmitted in it;
\*   got / sfin: what the server accepted in order;  the accepted bytes themselves are kept beside
\*   the record (acc).
BdIdle == [ph |-> "idle", idx |-> 0, sub |-> 0, dlen |-> 0, size |-> -1, crcReq |-> FALSE,
           crcOn |-> FALSE, B |-> 0, base |-> 0, sent |-> 0, fin |-> FALSE, got |-> 0,
           sfin |-> FALSE, lossBlk |-> 0, losses |-> 0,
           chk |-> TRUE]      \* chk: the server compares the committed length with the declared size (CiA 301 leaves that to it)

BdClientSegLegal(bd, data, q) ==
    /\ IsFrame8(q)
    /\ bd.ph = "blk" /\ ~bd.fin /\ bd.sent < bd.B
    /\ SegSeq(q) = bd.sent + 1
    /\ SegPayloadOk(q, data, bd.base + 7 * bd.sent)

\* effect of a segment (lost or delivered) on the bookkeeping; returns the new record and the
\* bytes the server appends to its buffer
BdOnSeg(bd, q, lost) ==
    LET c == SegLast(q)
        acceptIt == ~lost /\ ~bd.sfin /\ SegSeq(q) = bd.got + 1
        sent2 == bd.sent + 1
        endOfBlock == sent2 >= bd.B \/ c = 1
    IN [bd |-> [bd EXCEPT !.sent = sent2, !.fin = (bd.fin \/ c = 1),
                          !.got = IF acceptIt THEN bd.got + 1 ELSE bd.got,
                          !.sfin = IF acceptIt THEN c = 1 ELSE bd.sfin,
                          !.lossBlk = bd.lossBlk + (IF lost THEN 1 ELSE 0),
                          !.losses = bd.losses + (IF lost THEN 1 ELSE 0),
                          !.ph = IF endOfBlock THEN "waitack" ELSE "blk"],
        app |-> IF acceptIt THEN SubSeq(q, 2, 8) ELSE <<>>]

\* the acknowledge a conformant server gives for the current sub-block
BdAckLegal(bd, r) == IsFrame8(r) /\ r[1] = 162 /\ r[2] = bd.got /\ r[3] \in 1..127
                     /\ r[4] = 0 /\ r[5] = 0 /\ r[6] = 0 /\ r[7] = 0 /\ r[8] = 0

BdAfterAck(bd, r) ==
    LET complete == bd.sfin /\ r[2] = bd.sent IN
      [bd EXCEPT !.base = bd.base + 7 * r[2], !.sent = 0, !.fin = FALSE, !.got = 0,
                 !.B = r[3], !.lossBlk = 0, !.ph = IF complete THEN "end" ELSE "blk"]

\* bytes the server commits at the end request (n = unused bytes of the last segment)
BdCommitted(acc, n) == SubSeq(acc, 1, Len(acc) - n)
BdEndAccept(bd, acc, q) ==      \* does the reference server accept the end request?
    LET n == (q[1] \div 4) % 8
        v == BdCommitted(acc, n)
    IN /\ IsFrame8(q) /\ q[1] % 4 = 1 /\ q[1] \div 32 = 6
       /\ Len(acc) >= 7 /\ n \in 0..6
       /\ ((bd.chk /\ bd.size >= 0) => Len(v) = bd.size)
       /\ (bd.crcOn => q[2] + 256 * q[3] = Crc16(v))

\* ---- block upload ---------------------------------------------------------------------------
\* bu = [ph, idx, sub, crcReq, crcOn, B, base, sent, sfin, rcv, bad, dist]
\*   sent / sfin: segments the server transmitted in the current sub-block; rcv: how many of them
\*   reached the client in order and intact; bad: the client saw a gap or a corrupted segment
BuIdle == [ph |-> "idle", idx |-> 0, sub |-> 0, crcReq |-> FALSE, crcOn |-> FALSE, B |-> 0,
           base |-> 0, sent |-> 0, sfin |-> FALSE, rcv |-> 0, gap |-> FALSE]

BuServerSegLegal(bu, value, r) ==
    /\ IsFrame8(r) /\ bu.ph = "blk" /\ ~bu.sfin /\ bu.sent < bu.B
    /\ SegSeq(r) = bu.sent + 1
    /\ SegPayloadOk(r, value, bu.base + 7 * bu.sent)
    /\ (Len(value) - (bu.base + 7 * bu.sent) < 7 =>
          AllZero(SubSeq(r, 2 + Len(value) - (bu.base + 7 * bu.sent), 8)))

BuOnSeg(bu, r, how) ==   \* how \in {"ok", "lost", "flip"}
    LET sent2 == bu.sent + 1
        c == SegLast(r)
        inorder == how = "ok" /\ ~bu.gap
    IN [bu EXCEPT !.sent = sent2, !.sfin = (c = 1),
                  !.rcv = IF inorder THEN bu.rcv + 1 ELSE bu.rcv,
                  !.gap = bu.gap \/ how # "ok",
                  !.ph = IF sent2 >= bu.B \/ c = 1 THEN "waitack" ELSE "blk"]

BuAckLegal(bu, q) == IsFrame8(q) /\ q[1] = 162 /\ q[2] = bu.rcv /\ q[3] \in 1..127
BuAfterAck(bu, q) ==
    LET complete == bu.sfin /\ q[2] = bu.sent IN
      [bu EXCEPT !.base = bu.base + 7 * q[2], !.sent = 0, !.sfin = FALSE, !.rcv = 0, !.gap = FALSE,
                 !.B = q[3], !.ph = IF complete THEN "end" ELSE "blk"]
=============================================================================
