----------------------------- MODULE MC_SdoBlock -----------------------------
(* Leg A for C12 / C13: a client that sends only frames the SdoBlock operators call legal,       *)
(* the reference server bookkeeping, and a channel that may lose up to MaxLoss segments or       *)
(* acknowledges.  Block download: whenever the end request is accepted the server has committed  *)
(* exactly the payload; a single loss outside the final sub-block never forces a failure.        *)
(* Block upload (same bookkeeping, roles swapped): the data assembled by a client that follows   *)
(* BuAckLegal equals the server's value.                                                         *)
EXTENDS SdoBlock

CONSTANTS Lens, Blks, MaxLoss

VARIABLES dir, bd, acc, committed, n, crc, lossesLeft, cl, ackLost, bu, rcvd

vars == <<dir, bd, acc, committed, n, crc, lossesLeft, cl, ackLost, bu, rcvd>>
Data == [i \in 1..n |-> (i * 37) % 251]

Init == /\ dir \in {"dl", "ul"} /\ n \in Lens /\ crc \in BOOLEAN /\ lossesLeft = MaxLoss
        /\ \E b \in Blks :
             /\ bd = [BdIdle EXCEPT !.ph = "blk", !.idx = 8192, !.dlen = n, !.size = n, !.crcReq = crc,
                                    !.crcOn = crc, !.B = b]
             /\ bu = [BuIdle EXCEPT !.ph = "blk", !.idx = 8192, !.crcReq = crc, !.crcOn = crc, !.B = b]
        /\ acc = <<>> /\ committed = NoVal /\ cl = "run" /\ ackLost = FALSE /\ rcvd = <<>>

\* ---- download -----------------------------------------------------------------------------------
TheSeg == LET pos == bd.base + 7 * bd.sent
              rem == n - pos
              k == Min2(7, rem)
          IN <<(IF rem <= 7 THEN 128 ELSE 0) + bd.sent + 1>> \o Pad(SubSeq(Data, pos + 1, pos + k), 7)

DlSendSeg == /\ dir = "dl" /\ cl = "run" /\ bd.ph = "blk"
             /\ BdClientSegLegal(bd, Data, TheSeg)
             /\ \E lost \in (IF lossesLeft > 0 THEN {TRUE, FALSE} ELSE {FALSE}) :
                  LET o == BdOnSeg(bd, TheSeg, lost) IN
                    /\ bd' = o.bd /\ acc' = acc \o o.app
                    /\ lossesLeft' = IF lost THEN lossesLeft - 1 ELSE lossesLeft
             /\ UNCHANGED <<dir, committed, n, crc, cl, ackLost, bu, rcvd>>

DlAck == /\ dir = "dl" /\ cl = "run" /\ bd.ph = "waitack"
         /\ \E b \in Blks, lost \in (IF lossesLeft > 0 THEN {TRUE, FALSE} ELSE {FALSE}) :
              LET r == BlkAck(bd.got, b) IN
                /\ BdAckLegal(bd, r)
                /\ bd' = BdAfterAck(bd, r)
                /\ lossesLeft' = IF lost THEN lossesLeft - 1 ELSE lossesLeft
                /\ ackLost' = (ackLost \/ lost)
                \* the client may give up only after an acknowledge was lost or the final sub-block
                \* was hit; otherwise it has to go on (retransmission repairs the loss)
                /\ cl' \in (IF lost THEN {"failed"}
                            ELSE IF bd.lossBlk > 0 /\ bd.fin THEN {"run", "failed"} ELSE {"run"})
         /\ UNCHANGED <<dir, acc, committed, n, crc, bu, rcvd>>

DlEnd == /\ dir = "dl" /\ cl = "run" /\ bd.ph = "end"
         /\ LET q == BdEnd(7 - LastLen(n), IF bd.crcOn THEN Crc16(Data) ELSE 0) IN
              IF BdEndAccept(bd, acc, q)
                THEN committed' = BdCommitted(acc, (q[1] \div 4) % 8) /\ cl' = "done"
                ELSE committed' = committed /\ cl' = "refused"
         /\ bd' = [bd EXCEPT !.ph = "done"]
         /\ UNCHANGED <<dir, acc, n, crc, lossesLeft, ackLost, bu, rcvd>>

\* ---- upload -------------------------------------------------------------------------------------
SrvSeg == LET pos == bu.base + 7 * bu.sent
              rem == n - pos
              k == Min2(7, rem)
          IN <<(IF rem <= 7 THEN 128 ELSE 0) + bu.sent + 1>> \o Pad(SubSeq(Data, pos + 1, pos + k), 7)

UlSendSeg == /\ dir = "ul" /\ cl = "run" /\ bu.ph = "blk"
             /\ BuServerSegLegal(bu, Data, SrvSeg)
             /\ \E how \in (IF lossesLeft > 0 THEN {"ok", "lost"} ELSE {"ok"}) :
                  /\ bu' = BuOnSeg(bu, SrvSeg, how)
                  \* the client keeps a segment only when it arrives in order
                  /\ rcvd' = IF how = "ok" /\ ~bu.gap THEN rcvd \o SubSeq(SrvSeg, 2, 8) ELSE rcvd
                  /\ lossesLeft' = IF how = "lost" THEN lossesLeft - 1 ELSE lossesLeft
             /\ UNCHANGED <<dir, bd, acc, committed, n, crc, cl, ackLost>>

UlAck == /\ dir = "ul" /\ cl = "run" /\ bu.ph = "waitack"
         /\ \E b \in Blks :
              LET q == <<162, bu.rcv, b, 0, 0, 0, 0, 0>> IN
                /\ BuAckLegal(bu, q)
                /\ bu' = BuAfterAck(bu, q)
         /\ UNCHANGED <<dir, bd, acc, committed, n, crc, lossesLeft, cl, ackLost, rcvd>>

UlEnd == /\ dir = "ul" /\ cl = "run" /\ bu.ph = "end"
         /\ committed' = SubSeq(rcvd, 1, Len(rcvd) - (7 - LastLen(n)))
         /\ cl' = "done" /\ bu' = [bu EXCEPT !.ph = "done"]
         /\ UNCHANGED <<dir, bd, acc, n, crc, lossesLeft, ackLost, rcvd>>

Next == DlSendSeg \/ DlAck \/ DlEnd \/ UlSendSeg \/ UlAck \/ UlEnd
Spec == Init /\ [][Next]_vars /\ WF_vars(Next)

\* ---- properties ---------------------------------------------------------------------------------
NormalReturnMeansCommitted == cl = "done" => committed = Data
EndAlwaysAccepted == cl # "refused"
AccIsPrefix == dir = "dl" => \A i \in 1..Min2(Len(acc), n) : acc[i] = Data[i]
Terminates == <>(cl \in {"done", "failed"})
=============================================================================
