----------------------------- MODULE Table_Emcy -----------------------------
(* C16: the description of every one of the 65536 EMCY codes, dumped from EmcyError.get_desc(). *)
EXTENDS Emcy, Json, IOUtils
Rows == JsonDeserialize(IOEnv.TRACE_FILE)
ASSUME \A i \in 1..Len(Rows) :
         Rows[i].desc = Desc(Rows[i].code) \/ PrintT(<<"BADROW", i, "error class description differs from CiA 301">>)
ASSUME PrintT(<<"TABLE-CHECKED", Len(Rows)>>)
VARIABLE x
Init == x = 0
Next == x' = x
=============================================================================
