------------------------------ MODULE Table_Epf ------------------------------
(* EPF (XML) import (growth beyond the listed properties): one row per generated parameter.        *)
(* want: what the independent writer put into the XML text (strings as written, "" = attribute      *)
(* absent); got: what the imported dictionary holds.  The rules below are the import semantics:     *)
(*   group with 1 parameter  -> variable named after the group                                     *)
(*   2 parameters, the second with ObjectType ARRAY -> array; anything else -> record               *)
(*   DataType name -> CiA 301 type code (unknown names: no type), AccessType default "rw",          *)
(*   Minimum/Maximum/DefaultValue only when they are decimal integers, Unit "-" = none,             *)
(*   Factor: decimal digits -> integer, otherwise floating point; bit rate = number x 1000 with a   *)
(*   "U" removed, 250 when the attribute is absent.                                                 *)
EXTENDS Naturals, Integers, Sequences, TLC, Json, IOUtils
Rows == JsonDeserialize(IOEnv.TRACE_FILE)
TypeCode(n) == CASE n = "BOOLEAN" -> 1 [] n = "INTEGER8" -> 2 [] n = "INTEGER16" -> 3 [] n = "INTEGER32" -> 4
                 [] n = "UNSIGNED8" -> 5 [] n = "UNSIGNED16" -> 6 [] n = "UNSIGNED32" -> 7 [] n = "REAL32" -> 8
                 [] n = "VISIBLE_STRING" -> 9 [] n = "DOMAIN" -> 15 [] OTHER -> -1
Kind(npar, second_is_array) == IF npar = 1 THEN "var" ELSE IF npar = 2 /\ second_is_array THEN "arr" ELSE "rec"
\* the writer marks numeric attribute strings: [s |-> text, isint |-> BOOLEAN, v |-> value]
NumOk(w, g) == IF w.isint THEN g.has /\ g.v = w.v ELSE ~g.has
\* factor strings the writer uses, and what they must become (repr of the Python value)
FactorRepr(s) == CASE s = "" -> "1" [] s = "1" -> "1" [] s = "10" -> "10" [] s = "1000" -> "1000"
                   [] s = "0.5" -> "0.5" [] s = "0.25" -> "0.25" [] s = "-2" -> "-2.0" [] s = "1e-3" -> "0.001"
                   [] s = "2.0" -> "2.0" [] OTHER -> "?"
Why(r) ==
    LET w == r.want
        g == r.got
    IN IF ~g.found THEN "parameter not found at its index / sub-index"
       ELSE IF g.kind # Kind(w.npar, w.second_is_array) THEN "variable / array / record classification differs"
       ELSE IF g.parent # (IF w.npar = 1 THEN "" ELSE w.group) THEN "container is not named after the group"
       ELSE IF g.name # (IF w.npar = 1 THEN w.group ELSE w.name) THEN "name differs (a single parameter takes the group's name)"
       ELSE IF g.dtype # TypeCode(w.dtype) THEN "data type differs"
       ELSE IF g.access # (IF w.access = "" THEN "rw" ELSE w.access) THEN "access type differs"
       ELSE IF ~NumOk(w.min, g.min) THEN "minimum differs"
       ELSE IF ~NumOk(w.max, g.max) THEN "maximum differs"
       ELSE IF ~NumOk(w.default, g.default) THEN "default differs"
       ELSE IF g.unit # (IF w.unit = "-" THEN "" ELSE w.unit) THEN "unit differs"
       ELSE IF g.factor # FactorRepr(w.factor) THEN "factor differs"
       ELSE IF g.desc # w.desc THEN "description differs"
       ELSE IF g.vdescs # w.vdescs THEN "value descriptions differ"
       ELSE IF g.bitdefs # w.bitdefs THEN "bit definitions differ"
       ELSE IF g.bitrate # (IF w.bitrate = "none" THEN -1 ELSE IF w.bitrate = "" THEN 250000 ELSE w.bitrate_num * 1000)
         THEN "bit rate differs"
       ELSE IF w.npar > 1 /\ g.cdesc # w.gdesc THEN "description of the array / record differs"
       ELSE ""
ASSUME \A i \in 1..Len(Rows) : Why(Rows[i]) = "" \/ PrintT(<<"BADROW", i, Why(Rows[i])>>)
ASSUME PrintT(<<"TABLE-CHECKED", Len(Rows)>>)
VARIABLE x
Init == x = 0
Next == x' = x
=============================================================================
