------------------------------- MODULE Extras -------------------------------
(* Behaviour of the stack beyond the twenty listed properties (specification growth, DESIGN §8):     *)
(* SYNC with counter, TIME producer framing, active node search, store / restore parameters,          *)
(* LSS identify services, PDO lookup rules.  Judged by Trace_Extras from recorded executions.         *)
EXTENDS CanBase, FiniteSets

SyncFrame(count) == [id |-> 128, d |-> IF count >= 0 THEN <<count>> ELSE <<>>, rtr |-> FALSE]
\* TIME_OF_DAY (CiA 301): 28 bit milliseconds after midnight, 16 bit days.  The library counts the
\* days of an explicitly given Unix time stamp from 1970 (pinned by its own test suite); the
\* specification follows the pinned behaviour and records the deviation from CiA 301 (1984).
TimeFrame(msLo, msHi, days) == [id |-> 256, d |-> LE16(msLo) \o LE16(msHi) \o LE16(days), rtr |-> FALSE]
\* active search: one SDO upload request of 0x1000:00 per node id 1..limit, in order
SearchFrames(limit) == [n \in 1..limit |-> [id |-> 1536 + n, d |-> <<64, 0, 16, 0, 0, 0, 0, 0>>, rtr |-> FALSE]]
\* store / restore: expedited download of the signature to 0x1010 / 0x1011 : sub
StoreReq(sub) == <<35, 16, 16, sub, 115, 97, 118, 101>>          \* "save"
RestoreReq(sub) == <<35, 17, 16, sub, 108, 111, 97, 100>>        \* "load"
\* LSS identify remote slave: six address frames 0x46..0x4B, identify non-configured: 0x4C
IdentifyFrames(ids) == [k \in 1..6 |-> [id |-> 2021, d |-> <<69 + k>> \o ids[k] \o <<0, 0, 0>>, rtr |-> FALSE]]
IdentifyNonConfigured == [id |-> 2021, d |-> <<76, 0, 0, 0, 0, 0, 0, 0>>, rtr |-> FALSE]
\* import_from_node(n, network): a temporary SDO client uploads 0x1021:00 ("Store EDS") as text and
\* imports it with node id n; any failure (abort, silence, unreadable text) gives None.  Named deviation
\* UnsubscribesAll: the clean-up is network.unsubscribe(0x580 + n) without a callback, which removes
\* every handler of that id - also one that was subscribed before the call (a node added earlier is
\* deaf to SDO responses afterwards); the specification follows the code and records the deviation.
ImportRequest == <<64, 33, 16, 0, 0, 0, 0, 0>>
ImportSucceeds(mode) == mode = "ok"
ImportSubscribersLeft == 0
ImportNode == 9          \* the harness imports from node 9; $NODEID-relative values resolve with that id
\* array view of a remote node (SdoArray): the device's sub-index 0 decides; record view (SdoRecord):
\* the dictionary decides, the "highest sub-index" entry 0 is not counted and not iterated
ArrLen(n) == n
ArrIter(n) == [i \in 1..n |-> i]
ArrContains(n, s) == 0 <= s /\ s <= n
RECURSIVE SortedSeq(_)
SortedSeq(S) == IF S = {} THEN <<>> ELSE LET m == CHOOSE x \in S : \A y \in S : x <= y IN <<m>> \o SortedSeq(S \ {m})
RecLen(subs) == Cardinality(subs \ {0})
RecIter(subs) == SortedSeq(subs \ {0})
=============================================================================
