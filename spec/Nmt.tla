-------------------------------- MODULE Nmt --------------------------------
(* CiA 301 NMT (C11): command specifiers, state codes and names, addressing filter, heartbeat /  *)
(* boot-up decoding as seen through the library's NmtMaster / NmtSlave API.                      *)
EXTENDS Naturals, Sequences, TLC

Cmds == {1, 2, 80, 96, 128, 129, 130}
CmdToState(c) == CASE c = 1 -> 5 [] c = 2 -> 4 [] c = 80 -> 80 [] c = 96 -> 96 [] c = 128 -> 127
                   [] c = 129 -> 0 [] c = 130 -> 0
StateCodes == {0, 4, 5, 80, 96, 127}
StateName(s) == CASE s = 0 -> "INITIALISING" [] s = 4 -> "STOPPED" [] s = 5 -> "OPERATIONAL"
                  [] s = 80 -> "SLEEP" [] s = 96 -> "STANDBY" [] s = 127 -> "PRE-OPERATIONAL"
                  [] OTHER -> "?"
DefinedNames == {"INITIALISING", "STOPPED", "OPERATIONAL", "SLEEP", "STANDBY", "PRE-OPERATIONAL"}
NameToCmd(n) == CASE n = "OPERATIONAL" -> 1 [] n = "STOPPED" -> 2 [] n = "SLEEP" -> 80
                  [] n = "STANDBY" -> 96 [] n = "PRE-OPERATIONAL" -> 128 [] n = "INITIALISING" -> 129
                  [] n = "RESET" -> 129 [] n = "RESET COMMUNICATION" -> 130 [] OTHER -> 0
ValidName(n) == NameToCmd(n) # 0

\* effect of an NMT command frame <<code, target>> on a node with id nid in state s
OnCommand(s, nid, code, target) ==
    IF target \in {nid, 0} /\ code \in Cmds THEN CmdToState(code) ELSE s
\* master's view after it sent command code itself
AfterSend(s, code) == IF code \in Cmds THEN CmdToState(code) ELSE s
\* master's view after a heartbeat / boot-up byte
OnHeartbeat(b) == IF b % 128 = 0 THEN 127 ELSE b % 128
\* reported name is constrained only for defined states
NameOk(name, s) == IF s \in StateCodes THEN name = StateName(s) ELSE name \notin DefinedNames
=============================================================================
