--------------------------- MODULE Trace_SdoBlock ---------------------------
(* Trace specification for the real BlockDownloadStream / BlockUploadStream against the          *)
(* reference block server simulator (C12, C13, block part of C07).                              *)
(* Download events: call(bdl) x(init) seg* ack ... x(end) ret|raise ; cab = client abort          *)
(* Upload events:   call(bul) x(init) cq(start) sseg* cq(ack) ... send cq(end) ret|raise          *)
(* Losses / corruptions applied by the harness are part of the events (lost, how).               *)
EXTENDS SdoBlock, Json, IOUtils

KInit(t) == [op |-> "none", bd |-> BdIdle, bu |-> BuIdle, acc |-> <<>>, committed |-> NoVal,
             dist |-> FALSE, ci |-> 0, busy |-> FALSE, srvdead |-> FALSE, noend |-> FALSE, corrupt |-> FALSE, needTA |-> FALSE, lossonly |-> TRUE]
KShow(st) == [op |-> st.op, bd |-> st.bd, bu |-> st.bu, acclen |-> Len(st.acc), dist |-> st.dist,
              busy |-> st.busy, srvdead |-> st.srvdead,
              committed |-> IF st.committed = NoVal THEN -1 ELSE Len(st.committed)]

Bad(st, why) == [ok |-> FALSE, why |-> why, st |-> st]
Good(st) == [ok |-> TRUE, why |-> "", st |-> st]
\* C07: a client abort frame carrying the time-out code 0x05040000 answers a lost response
IsTimeoutAbort(q) == Len(q) = 8 /\ q[1] = 128 /\ SubSeq(q, 5, 8) = <<0, 0, 4, 5>>
ClearTA(st, q) == IF IsTimeoutAbort(q) THEN [st EXCEPT !.needTA = FALSE] ELSE st
\* a disturbed request/response exchange: the server acted on the request, the client got e.dlv
Disturbed(st, e) == [st EXCEPT !.dist = st.dist \/ e.fault # "none",
                               !.needTA = st.needTA \/ e.fault = "drop",
                               !.lossonly = st.lossonly /\ e.fault = "none",
                               \* an abort frame is the server's own: it has left the transfer
                               !.srvdead = st.srvdead \/ e.fault = "abort"]

OnCall(st, e) ==
    IF st.busy THEN Bad(st, "call while busy")
    ELSE IF e.op = "bdl"
      THEN Good([KInit(0) EXCEPT !.op = "bdl", !.ci = e.n, !.busy = TRUE,
                                 !.bd = [BdIdle EXCEPT !.ph = "init", !.idx = e.idx, !.sub = e.sub,
                                                       !.dlen = Len(e.data), !.size = e.size,
                                                       !.crcReq = e.crc, !.chk = e.sizecheck]])
      ELSE Good([KInit(0) EXCEPT !.op = "bul", !.ci = e.n, !.busy = TRUE,
                                 !.bu = [BuIdle EXCEPT !.ph = "init", !.idx = e.idx, !.sub = e.sub,
                                                       !.crcReq = e.crc]])

\* ---- download ---------------------------------------------------------------------------------
BdXEv(st, e, data) ==
    LET bd == st.bd IN
    IF e.fault = "none" /\ e.dlv # e.r THEN Bad(st, "HARNESS: undisturbed exchange delivered something else")
    ELSE IF st.srvdead
      THEN IF Len(e.r) <= 1 /\ (e.r = <<>> \/ IsAbort(e.r[1])) THEN Good(st)
           ELSE Bad(st, "HARNESS: reference server answered after it had aborted")
    ELSE IF bd.ph = "init"
      THEN IF e.q # BdInit(bd.idx, bd.sub, bd.size, bd.crcReq)
             THEN Bad(st, "block download initiate request is not the CiA 301 frame")
           ELSE IF Len(e.r) # 1 \/ ~IsBdInitResp(e.r[1], bd.idx, bd.sub) \/ (e.r[1][1] = 164 /\ ~bd.crcReq)
             THEN Bad(st, "HARNESS: reference server initiate response malformed")
           ELSE Good([Disturbed(st, e) EXCEPT !.bd = [bd EXCEPT !.ph = "blk", !.B = e.r[1][5],
                                                  !.crcOn = (e.r[1][1] = 164)]])
    ELSE IF bd.ph = "end"
      THEN LET n == 7 - LastLen(bd.dlen)
               want == BdEnd(n, IF bd.crcOn THEN Crc16(data) ELSE 0)
           IN IF ~st.dist /\ e.q # want
                THEN Bad(st, "end request: wrong unused-byte count, CRC or reserved bytes")
              ELSE IF BdEndAccept(bd, st.acc, e.q)
                THEN IF e.r # <<BdEndResp>> THEN Bad(st, "HARNESS: reference server did not confirm a valid end request")
                     ELSE Good([Disturbed(st, e) EXCEPT !.bd = [bd EXCEPT !.ph = "done"],
                                          !.committed = BdCommitted(st.acc, (e.q[1] \div 4) % 8)])
                ELSE IF Len(e.r) = 1 /\ IsAbort(e.r[1])
                       THEN Good([st EXCEPT !.srvdead = TRUE, !.dist = TRUE])
                       ELSE Bad(st, "HARNESS: reference server accepted an invalid end request")
    ELSE \* request/response exchange in the middle of a sub-block: only after a disturbance
      IF ~st.dist THEN Bad(st, "unexpected request during the sub-block phase")
      ELSE IF Len(e.r) <= 1 /\ (e.r = <<>> \/ IsAbort(e.r[1])) THEN Good([st EXCEPT !.srvdead = TRUE])
      ELSE Bad(st, "HARNESS: reference server answered an out-of-phase request without abort")

BdSegEv(st, e, data) ==
    LET bd == st.bd IN
    IF ~IsFrame8(e.q) THEN Bad(st, "segment is not 8 bytes")
    ELSE IF st.srvdead THEN Good(st)
    ELSE IF ~st.dist /\ ~BdClientSegLegal(bd, data, e.q)
      THEN Bad(st, "segment: wrong sequence number, payload bytes or last-segment flag")
    ELSE IF bd.ph # "blk" THEN (IF st.dist THEN Good(st) ELSE Bad(st, "segment outside a sub-block"))
    ELSE LET o == BdOnSeg(bd, e.q, e.lost) IN
         \* a loss in the sub-block that carries the last segment, or a second loss, is outside
         \* the pattern retransmission has to repair
         Good([st EXCEPT !.bd = o.bd, !.acc = st.acc \o o.app,
                         !.dist = st.dist \/ (o.bd.lossBlk > 0 /\ o.bd.fin) \/ o.bd.losses > 1])

BdAckEv(st, e) ==
    LET bd == st.bd IN
    IF st.srvdead THEN Bad(st, "HARNESS: acknowledge from a dead server")
    ELSE IF ~BdAckLegal(bd, e.r) THEN Bad(st, "HARNESS: reference server acknowledge is not <<ackseq = accepted, blksize 1..127>>")
    ELSE IF bd.ph \notin {"waitack", "blk"} THEN Bad(st, "HARNESS: acknowledge in the wrong phase")
    \* the server's own time-out answered an incomplete sub-block: legitimate only after a loss
    ELSE IF bd.ph = "blk" /\ ~st.dist /\ bd.lossBlk = 0 /\ bd.losses = 0
      THEN Bad(st, "the client stopped sending before the sub-block was complete (block size announced by the server not honoured)")
    ELSE Good([st EXCEPT !.bd = BdAfterAck(bd, e.r), !.srvdead = (e.kind = "abort"),
                         !.needTA = st.needTA \/ e.kind = "drop",
                         !.lossonly = st.lossonly /\ e.kind = "none",
                         !.dist = st.dist \/ e.lost \/ e.kind # "none" \/ (bd.lossBlk > 0 /\ bd.fin) \/ bd.losses > 1
                                  \/ (bd.ph = "blk")])

\* ---- upload -----------------------------------------------------------------------------------
UlX(st, e, value, srvcrc) ==
    LET bu == st.bu IN
    IF e.fault = "none" /\ e.dlv # e.r THEN Bad(st, "HARNESS: undisturbed exchange delivered something else")
    ELSE IF bu.ph # "init" THEN Bad(st, "unexpected request/response exchange during block upload")
    ELSE IF ~(IsFrame8(e.q) /\ e.q[1] = 160 + (IF bu.crcReq THEN 4 ELSE 0) /\ FIdx(e.q) = bu.idx
              /\ FSub(e.q) = bu.sub /\ e.q[5] \in 1..127 /\ e.q[7] = 0 /\ e.q[8] = 0)
      THEN Bad(st, "block upload initiate request is not the CiA 301 frame")
    ELSE IF Len(e.r) # 1 \/ ~IsBuInitResp(e.r[1], bu.idx, bu.sub, Len(value))
            \/ ((e.r[1][1] \div 4) % 2 = 1) # (bu.crcReq /\ srvcrc)
      THEN Bad(st, "HARNESS: reference server block upload initiate response malformed")
    ELSE Good([Disturbed(st, e) EXCEPT !.bu = [bu EXCEPT !.ph = "start", !.B = e.q[5],
                                           !.crcOn = (bu.crcReq /\ srvcrc)]])

UlCq(st, e) ==
    LET bu == st.bu IN
    IF ~IsFrame8(e.q) THEN Bad(st, "client frame is not 8 bytes")
    ELSE IF e.q[1] = 128 THEN Good([ClearTA(st, e.q) EXCEPT !.bu = [bu EXCEPT !.ph = "aborted"]])
    ELSE IF bu.ph = "start"
      THEN IF e.q = BuStart THEN Good([st EXCEPT !.bu = [bu EXCEPT !.ph = "blk"]])
           ELSE Bad(st, "start of block upload is not the CiA 301 frame")
    ELSE IF bu.ph = "waitack"
      THEN IF ~st.dist /\ ~BuAckLegal(bu, e.q)
             THEN Bad(st, "sub-block acknowledge: wrong ackseq or block size")
           ELSE IF e.q[1] = 162 /\ e.q[2] <= bu.sent /\ e.q[3] \in 1..127
             THEN Good([st EXCEPT !.bu = BuAfterAck(bu, e.q)])
           ELSE IF st.dist THEN Good([st EXCEPT !.bu = [bu EXCEPT !.ph = "aborted"]])
           ELSE Bad(st, "unexpected client frame while the server waits for an acknowledge")
    ELSE IF bu.ph = "endsent"
      THEN IF e.q = BuEndResp THEN Good([st EXCEPT !.bu = [bu EXCEPT !.ph = "done"]])
           ELSE IF st.dist THEN Good([st EXCEPT !.bu = [bu EXCEPT !.ph = "aborted"]])
           ELSE Bad(st, "end of block upload not confirmed with the CiA 301 frame")
    ELSE IF st.dist THEN Good(st)
    ELSE Bad(st, "client frame in the wrong phase of the block upload")

UlSseg(st, e, value) ==
    LET bu == st.bu IN
    IF ~BuServerSegLegal(bu, value, e.r) THEN Bad(st, "HARNESS: reference server segment malformed")
    ELSE Good([st EXCEPT !.bu = BuOnSeg(bu, e.r, e.how), !.dist = st.dist \/ e.how # "ok" \/ e.kind # "none",
                         \* a dropped segment is normally repaired; a call that gives up instead owes the abort
                         !.needTA = st.needTA \/ e.kind = "drop",
                         !.lossonly = st.lossonly /\ e.how \in {"ok", "lost"} /\ e.kind = "none",
                         \* content damage (as opposed to loss, which the sequence numbers reveal)
                         !.corrupt = st.corrupt \/ e.how \notin {"ok", "lost"}])

UlSend(st, e, value) ==
    LET bu == st.bu
        want == BuEnd(7 - LastLen(Len(value)), IF bu.crcOn THEN Crc16(value) ELSE 0)
    IN IF bu.ph # "end" THEN Bad(st, "HARNESS: end frame in the wrong phase")
       ELSE IF e.r # want THEN Bad(st, "HARNESS: reference server end frame malformed")
       ELSE Good([st EXCEPT !.bu = [bu EXCEPT !.ph = "endsent"], !.dist = st.dist \/ e.how # "ok" \/ e.kind # "none",
                            !.corrupt = st.corrupt \/ e.how \notin {"ok", "lost"},
                            !.needTA = st.needTA \/ e.kind = "drop",
                            !.lossonly = st.lossonly /\ e.how = "ok" /\ e.kind = "none",
                            \* the delivered frame is not an end-of-block-upload frame at all
                            !.noend = (e.how = "wrongend")])

OnRet(st, e, data, value) ==
    IF ~st.busy THEN Bad(st, "return without call")
    ELSE IF st.op = "bdl"
      THEN IF st.committed = data THEN Good([st EXCEPT !.busy = FALSE])
           ELSE Bad(st, "block download returned normally but the server did not commit exactly the payload")
    ELSE IF st.noend THEN Bad(st, "block upload returned normally although the server never sent a valid end frame")
    ELSE IF ~st.dist
      THEN IF st.bu.ph = "done" /\ e.data = value THEN Good([st EXCEPT !.busy = FALSE])
           ELSE Bad(st, "undisturbed block upload did not return exactly the server's value / did not close the transfer")
    ELSE IF st.bu.crcOn /\ e.data # value
      THEN Bad(st, "block upload with CRC returned data that differs from the server's value")
    ELSE IF ~st.corrupt /\ e.data # value
      THEN Bad(st, "block upload returned data that differs from the server's value although segments were only lost, not damaged")
    ELSE IF st.lossonly /\ st.bu.ph # "done"
      THEN Bad(st, "block upload returned the value after a repaired loss but did not close the transfer")
    ELSE Good([st EXCEPT !.busy = FALSE])

OnRaise(st, e) ==
    IF ~st.busy THEN Bad(st, "raise without call")
    ELSE IF e.cls = "other" THEN Bad(st, "call raised something that is not an SDO error")
    ELSE IF st.needTA THEN Bad(st, "a lost response was not answered with an abort frame carrying the time-out code")
    ELSE IF ~st.dist THEN Bad(st, "undisturbed (or repairable single-loss) block transfer failed")
    ELSE Good([st EXCEPT !.busy = FALSE])

KStep(st, e, t) ==
    LET data == IF st.ci > 0 THEN t.ev[st.ci].data ELSE <<>> IN
    CASE e.e = "call" -> OnCall(st, e)
      [] e.e = "x" -> IF st.dist /\ Len(e.q) = 8 /\ e.q[1] = 128 /\ e.r = <<>>
                        THEN Good([ClearTA(st, e.q) EXCEPT !.srvdead = TRUE])      \* (repeated) client abort
                      ELSE IF st.dist /\ st.op = "bul" /\ st.bu.ph # "init" /\ Len(e.r) = 1 /\ IsAbort(e.r[1])
                        THEN Good([st EXCEPT !.srvdead = TRUE])   \* out-of-phase request after a disturbance
                      ELSE IF st.op = "bdl" THEN BdXEv(st, e, data) ELSE UlX(st, e, t.value, t.srvcrc)
      [] e.e = "seg" -> BdSegEv(st, e, data)
      [] e.e = "ack" -> BdAckEv(st, e)
      [] e.e = "cab" -> IF st.dist THEN Good([ClearTA(st, e.q) EXCEPT !.srvdead = TRUE])
                                  ELSE Bad(st, "client aborted an undisturbed block download")
      [] e.e = "cq" -> UlCq(st, e)
      [] e.e = "sseg" -> UlSseg(st, e, t.value)
      [] e.e = "send" -> UlSend(st, e, t.value)
      [] e.e = "ret" -> OnRet(st, e, data, t.value)
      [] e.e = "raise" -> OnRaise(st, e)
      [] e.e = "hang" -> Bad(st, "call did not return (hang)")
      [] OTHER -> Bad(st, "unknown event")

TraceFile == JsonDeserialize(IOEnv.TRACE_FILE)
VARIABLES tid, l, st
INSTANCE TraceBase WITH TInit <- KInit, TStep <- KStep, TShow <- KShow, Traces <- TraceFile
=============================================================================
