SPECIFICATION Spec
INVARIANT SafeOrder
INVARIANT HoldsAtEnd
INVARIANT ReadBackIsCfg
INVARIANT StrictSanity
CHECK_DEADLOCK FALSE
