SPECIFICATION Spec
CONSTANTS
  Fixed = FALSE
  Budget = 3
INVARIANT NoValueError
CHECK_DEADLOCK FALSE
