------------------------------ MODULE MC_OdDict ------------------------------
(* Design-level model of the dictionary container: every sequence of add_object / __delitem__ over a  *)
(* small universe.  Under the discipline Paired (an index and a name are only re-used together, which *)
(* is what the EDS / EPF importers and LocalNode do) the two maps stay mirror images of each other,   *)
(* deleting never fails half-way, and a look-up by name and by index agree for every non-empty        *)
(* object.  Without the discipline (cfg MC_OdDict_free) TLC shows the maps diverging (expected         *)
(* counterexample: the check asserts that Mirror is violated there).                                  *)
EXTENDS OdDict
CONSTANTS Indexes, Names, Disciplined
VARIABLES d, last
vars == <<d, last>>
Objects == {[id |-> 0, index |-> i, name |-> n, kind |-> k, subs |-> s] :
              i \in Indexes, n \in Names, k \in {"var", "rec", "arr"}, s \in {<<>>, <<0, 1>>}}
Paired(o) == /\ (o.name \in DOMAIN d.nm => d.nm[o.name].index = o.index)
             /\ (o.index \in DOMAIN d.ix => d.ix[o.index].name = o.name)
Init == d = Empty /\ last = "ok"
Add(o) == /\ (Disciplined => Paired(o)) /\ d' = AddObject(d, o) /\ last' = "ok"
Del(key) == LET r == Delete(d, key) IN d' = r.d /\ last' = (IF r.res = "ok" \/ r.d = d THEN r.res ELSE "partial")
Keys == {[k |-> "i", v |-> i] : i \in Indexes} \cup {[k |-> "s", v |-> n] : n \in Names}
Next == (\E o \in Objects : Add(o)) \/ (\E key \in Keys : Del(key))
Spec == Init /\ [][Next]_vars
Mirror == /\ \A i \in DOMAIN d.ix : d.ix[i].index = i /\ d.ix[i].name \in DOMAIN d.nm /\ d.nm[d.ix[i].name] = d.ix[i]
          /\ \A n \in DOMAIN d.nm : d.nm[n].name = n /\ d.nm[n].index \in DOMAIN d.ix /\ d.ix[d.nm[n].index] = d.nm[n]
NoPartialDelete == last # "partial"
LookupsAgree == \A i \in DOMAIN d.ix : Truthy(d.ix[i]) =>
                   Lookup(d, [k |-> "s", v |-> d.ix[i].name]) = Lookup(d, [k |-> "i", v |-> i])
LengthCountsObjects == Length(d) = Cardinality({d.nm[n].index : n \in DOMAIN d.nm})
\* a deleted key is gone under both spellings, everything else stays
DeleteRemovesExactly == [][\A key \in Keys : (d' = Delete(d, key).d /\ Delete(d, key).res = "ok" /\ d' # d) =>
                              LET o == Lookup(d, key).obj IN
                                /\ ~Contains(d', [k |-> "i", v |-> o.index]) /\ ~Contains(d', [k |-> "s", v |-> o.name])
                                /\ \A i \in DOMAIN d.ix \ {o.index} : i \in DOMAIN d'.ix /\ d'.ix[i] = d.ix[i]]_vars
=============================================================================
