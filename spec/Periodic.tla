------------------------------ MODULE Periodic ------------------------------
(* Periodic transmissions (C17): SYNC producer, PDO map, heartbeat producer of a local node       *)
(* (with the heartbeat-time object 0x1017 and the NMT state as payload), node guarding.           *)
(* State: for every producer either "off" or the <<can id, data, period (us), remote>> it sends;  *)
(* the implementation's live cyclic-task set must be exactly one task per running producer.       *)
EXTENDS Integers, Sequences, FiniteSets, TLC

Off == <<>>
\* (ext: the cyclic frame uses the extended format exactly for ids above 0x7FF, like every frame sent)
Task(id, d, period, rtr) == [id |-> id, d |-> d, period_us |-> period, rtr |-> rtr, ext |-> id > 2047]

\* pr = [sync, syncPeriod, pdo, pdoPeriod, pdoData, pdoId, hb, hbState, od1017, ng]
\*   sync / pdo / hb / ng : Off or a task record;  syncPeriod / pdoPeriod: remembered period (0 = none)
PInit(pdoId, nid) == [sync |-> Off, syncPeriod |-> 0, pdo |-> Off, pdoPeriod |-> 0, pdoData |-> <<>>,
                      pdoId |-> pdoId, hb |-> Off, hbState |-> 0, od1017 |-> 0, ng |-> Off, nid |-> nid,
                      syncId |-> 128, lastTs |-> -1]     \* syncId: the SYNC COB-ID attribute; lastTs: time stamp (half seconds) of the last frame the PDO map took in

\* start(period): period = 0 means "not given"
SyncStart(pr, period) ==
    LET p == IF period > 0 THEN period ELSE pr.syncPeriod IN
      IF p = 0 THEN [ok |-> FALSE, pr |-> [pr EXCEPT !.syncPeriod = p]]
      ELSE [ok |-> TRUE, pr |-> [pr EXCEPT !.syncPeriod = p, !.sync = Task(pr.syncId, <<>>, p, FALSE)]]
SyncStop(pr) == [pr EXCEPT !.sync = Off]

\* the COB-ID attribute of the SYNC producer changes; a running task keeps its frame until the next (re)start
SyncSetCob(pr, id) == [pr EXCEPT !.syncId = id]

PdoStart(pr, period) ==
    LET p == IF period > 0 THEN period ELSE pr.pdoPeriod IN
      IF p = 0 THEN [ok |-> FALSE, pr |-> [pr EXCEPT !.pdo = Off]]
      ELSE [ok |-> TRUE, pr |-> [pr EXCEPT !.pdoPeriod = p, !.pdo = Task(pr.pdoId, pr.pdoData, p, FALSE)]]
PdoStop(pr) == [pr EXCEPT !.pdo = Off]
\* the COB-ID attribute changes; a running task keeps its frame until the next (re)start
PdoSetCob(pr, id) == [pr EXCEPT !.pdoId = id]
PdoSetData(pr, d) == [pr EXCEPT !.pdoData = d,
                               !.pdo = IF pr.pdo = Off THEN Off ELSE [pr.pdo EXCEPT !.d = d]]

\* a frame with the map's own COB-ID reaches the network (echo of the own transmission, a second
\* transmitter): a map that is transmitting ignores it altogether; otherwise it is a reception (data,
\* and from the second one on the measured period, which a later start() without argument would use)
PdoEcho(pr, d, ts) ==
    IF pr.pdo # Off THEN pr
    ELSE [pr EXCEPT !.pdoData = d, !.lastTs = ts,
                    !.pdoPeriod = IF pr.lastTs >= 0 THEN (ts - pr.lastTs) * 500000 ELSE pr.pdoPeriod]

HbTask(pr, ms, state) == Task(1792 + pr.nid, <<state>>, ms * 1000, FALSE)
HbStart(pr, ms) == [pr EXCEPT !.hb = IF ms > 0 THEN HbTask(pr, ms, pr.hbState) ELSE Off]
HbStop(pr) == [pr EXCEPT !.hb = Off]
Write1017(pr, ms) == [HbStart(pr, ms) EXCEPT !.od1017 = ms]
\* NMT state change of the local node (by command frame or by API)
NmtTo(pr, newState, byApi) ==
    LET p1 == [pr EXCEPT !.hbState = newState] IN
      IF byApi /\ pr.hbState = 0 /\ newState = 127
        THEN HbStart(p1, pr.od1017)              \* heartbeat starts on INITIALISING -> PRE-OPERATIONAL
        ELSE [p1 EXCEPT !.hb = IF pr.hb = Off THEN Off ELSE [pr.hb EXCEPT !.d = <<newState>>]]

NgStart(pr, period) == [pr EXCEPT !.ng = Task(1792 + pr.nid + 1, <<>>, period, TRUE)]   \* guarded node = nid + 1
NgStop(pr) == [pr EXCEPT !.ng = Off]
Disconnect(pr) == [pr EXCEPT !.pdo = Off]

Expected(pr) == {x \in {pr.sync, pr.pdo, pr.hb, pr.ng} : x # Off}
\* live : sequence of task records (as projected from the bus)
LiveOk(pr, live) ==
    /\ Len(live) = Cardinality({i \in {"sync", "pdo", "hb", "ng"} : pr[i] # Off})
    /\ \A x \in {pr.sync, pr.pdo, pr.hb, pr.ng} : x # Off => \E i \in 1..Len(live) : live[i] = x
    /\ \A i \in 1..Len(live) : live[i] \in {pr.sync, pr.pdo, pr.hb, pr.ng}
=============================================================================
