------------------------------- MODULE Codec -------------------------------
(* CiA 301 data type encodings as an executable reference (C03, C04, used by C02/C20 too).      *)
(* Integers are limb integers  [neg |-> BOOLEAN, mag |-> little-endian byte sequence]  because  *)
(* TLC integers are 32 bit; all arithmetic needed (two's complement, range) is done on bytes.   *)
(* Floats are records taken from float.hex(): [cls, neg, lead, exp, frac (13 hex digits)].      *)
EXTENDS CanBase

\* type codes (CiA 301 object 0001h..001Bh)
T_BOOLEAN == 1   T_INTEGER8 == 2   T_INTEGER16 == 3  T_INTEGER32 == 4  T_UNSIGNED8 == 5  T_UNSIGNED16 == 6
T_UNSIGNED32 == 7  T_REAL32 == 8   T_VISIBLE_STRING == 9  T_OCTET_STRING == 10  T_UNICODE_STRING == 11
T_DOMAIN == 15   T_INTEGER24 == 16  T_REAL64 == 17  T_INTEGER40 == 18  T_INTEGER48 == 19  T_INTEGER56 == 20
T_INTEGER64 == 21  T_UNSIGNED24 == 22  T_UNSIGNED40 == 24  T_UNSIGNED48 == 25  T_UNSIGNED56 == 26
T_UNSIGNED64 == 27

SignedTypes == {T_INTEGER8, T_INTEGER16, T_INTEGER24, T_INTEGER32, T_INTEGER40, T_INTEGER48, T_INTEGER56, T_INTEGER64}
UnsignedTypes == {T_UNSIGNED8, T_UNSIGNED16, T_UNSIGNED24, T_UNSIGNED32, T_UNSIGNED40, T_UNSIGNED48, T_UNSIGNED56,
                  T_UNSIGNED64}
IntTypes == SignedTypes \cup UnsignedTypes
RealTypes == {T_REAL32, T_REAL64}
WidthOf(t) ==   \* bytes
    CASE t \in {T_INTEGER8, T_UNSIGNED8, T_BOOLEAN} -> 1
      [] t \in {T_INTEGER16, T_UNSIGNED16} -> 2
      [] t \in {T_INTEGER24, T_UNSIGNED24} -> 3
      [] t \in {T_INTEGER32, T_UNSIGNED32, T_REAL32} -> 4
      [] t \in {T_INTEGER40, T_UNSIGNED40} -> 5
      [] t \in {T_INTEGER48, T_UNSIGNED48} -> 6
      [] t \in {T_INTEGER56, T_UNSIGNED56} -> 7
      [] t \in {T_INTEGER64, T_UNSIGNED64, T_REAL64} -> 8
      [] OTHER -> 0

\* ---- limb integers ---------------------------------------------------------------------------
RECURSIVE Strip(_)
Strip(m) == IF m = <<>> THEN <<>> ELSE IF m[Len(m)] = 0 THEN Strip(SubSeq(m, 1, Len(m) - 1)) ELSE m
Norm(v) == LET m == Strip(v.mag) IN [neg |-> v.neg /\ m # <<>>, mag |-> m]
Limb(neg, mag) == Norm([neg |-> neg, mag |-> mag])
LimbOfNat(n) == Limb(FALSE, LE32(n))            \* n < 2^31

Invert(b) == [i \in 1..Len(b) |-> 255 - b[i]]
RECURSIVE AddOne(_)
AddOne(b) == IF b = <<>> THEN <<>>
             ELSE IF b[1] < 255 THEN <<b[1] + 1>> \o Tail(b)
             ELSE <<0>> \o AddOne(Tail(b))
TwosNeg(b) == AddOne(Invert(b))              \* modulo 2^(8 Len b)
IsPow(m, n) == \* m (stripped) = 2^(8n-1)
    Len(m) = n /\ m[n] = 128 /\ \A i \in 1..(n - 1) : m[i] = 0

InRange(t, v) ==
    LET n == WidthOf(t)
        w == Norm(v)
        m == w.mag
    IN IF t \in UnsignedTypes THEN ~w.neg /\ Len(m) <= n
       ELSE IF ~w.neg THEN Len(m) < n \/ (Len(m) = n /\ m[n] < 128)
       ELSE Len(m) < n \/ (Len(m) = n /\ m[n] < 128) \/ IsPow(m, n)

EncodeInt(t, v) ==   \* defined for InRange(t, v)
    LET n == WidthOf(t)
        w == Norm(v)
    IN IF w.neg THEN TwosNeg(Pad(w.mag, n)) ELSE Pad(w.mag, n)

DecodeInt(t, b) ==   \* defined for Len(b) = WidthOf(t)
    IF t \in SignedTypes /\ b[Len(b)] >= 128 THEN Limb(TRUE, TwosNeg(b)) ELSE Limb(FALSE, b)

\* ---- floats ------------------------------------------------------------------------------------
HexBits(d) == <<(d \div 8) % 2, (d \div 4) % 2, (d \div 2) % 2, d % 2>>      \* MSB first
RECURSIVE FracBits(_)
FracBits(ds) == IF ds = <<>> THEN <<>> ELSE HexBits(Head(ds)) \o FracBits(Tail(ds))   \* 52 bits MSB first
Rev(s) == [i \in 1..Len(s) |-> s[Len(s) + 1 - i]]
NatBits(n, k) == [i \in 1..k |-> (n \div (2 ^ (i - 1))) % 2]     \* LSB first, k bits

Real64Bits(f) ==   \* 64 bits LSB first
    CASE f.cls = "inf" -> Zeros(52) \o NatBits(2047, 11) \o <<IF f.neg THEN 1 ELSE 0>>
      [] f.cls = "fin" ->
           Rev(FracBits(f.frac)) \o NatBits(IF f.lead = 1 THEN f.exp + 1023 ELSE 0, 11)
           \o <<IF f.neg THEN 1 ELSE 0>>
Real32Exact(f) ==  \* is the (double) value exactly a float32?
    f.cls = "inf" \/
    LET fb == FracBits(f.frac) IN
      IF f.lead = 0 THEN AllZero(fb)            \* only zero (double subnormals are not float32)
      ELSE IF f.exp >= -126 THEN f.exp <= 127 /\ AllZero(SubSeq(fb, 24, 52))
      ELSE f.exp >= -149 /\ AllZero(SubSeq(fb, 24 - (-126 - f.exp), 52))
Real32Bits(f) ==   \* 32 bits LSB first, for Real32Exact values
    CASE f.cls = "inf" -> Zeros(23) \o NatBits(255, 8) \o <<IF f.neg THEN 1 ELSE 0>>
      [] f.cls = "fin" ->
           LET fb == FracBits(f.frac)
               sgn == <<IF f.neg THEN 1 ELSE 0>>
           IN IF f.lead = 0 THEN Zeros(31) \o sgn
              ELSE IF f.exp >= -126
                THEN Rev(SubSeq(fb, 1, 23)) \o NatBits(f.exp + 127, 8) \o sgn
                ELSE LET s == -126 - f.exp IN    \* float32 subnormal: shift the significand
                     Rev(Zeros(s - 1) \o <<1>> \o SubSeq(fb, 1, 23 - s)) \o NatBits(0, 8) \o sgn
EncodeReal(t, f) == IF t = T_REAL64 THEN BytesOf(Real64Bits(f)) ELSE BytesOf(Real32Bits(f))

\* ---- strings ---------------------------------------------------------------------------------
IsAscii(cps) == \A i \in 1..Len(cps) : cps[i] \in 0..127
IsBmp(cps) == \A i \in 1..Len(cps) : cps[i] \in 0..65535 /\ ~(cps[i] \in 55296..57343)
Utf16(cps) == [i \in 1..(2 * Len(cps)) |->
                 IF i % 2 = 1 THEN cps[(i + 1) \div 2] % 256 ELSE cps[i \div 2] \div 256]
UnUtf16(b) == [i \in 1..(Len(b) \div 2) |-> b[2 * i - 1] + 256 * b[2 * i]]

\* ---- typed values as they appear in traces ------------------------------------------------------
\* v = [k |-> "int", neg, mag] | [k |-> "bool", b] | [k |-> "real", cls, neg, lead, exp, frac]
\*   | [k |-> "text", cps] | [k |-> "bytes", b]
Encodable(t, v) ==
    CASE t \in IntTypes -> v.k = "int" /\ InRange(t, v)
      [] t = T_BOOLEAN -> v.k = "bool"
      [] t = T_REAL64 -> v.k = "real" /\ v.cls # "nan"
      [] t = T_REAL32 -> v.k = "real" /\ v.cls # "nan" /\ Real32Exact(v)
      [] t = T_VISIBLE_STRING -> v.k = "text" /\ IsAscii(v.cps)
      [] t = T_UNICODE_STRING -> v.k = "text" /\ IsBmp(v.cps)
      [] OTHER -> v.k = "bytes"
Encode(t, v) ==
    CASE t \in IntTypes -> EncodeInt(t, v)
      [] t = T_BOOLEAN -> <<IF v.b THEN 1 ELSE 0>>
      [] t \in RealTypes -> EncodeReal(t, v)
      [] t = T_VISIBLE_STRING -> v.cps
      [] t = T_UNICODE_STRING -> Utf16(v.cps)
      [] OTHER -> v.b

\* does typed value v denote the content of bytes b (type t)?  (decode direction)
Denotes(t, v, b) ==
    CASE t \in IntTypes -> v.k = "int" /\ Len(b) = WidthOf(t) /\ Norm(v) = DecodeInt(t, b)
      [] t = T_BOOLEAN -> v.k = "bool" /\ Len(b) = 1 /\ v.b = (b[1] # 0)
      [] t \in RealTypes -> v.k = "real" /\ Len(b) = WidthOf(t)
                            /\ (v.cls = "nan" \/ (Encodable(t, v) /\ EncodeReal(t, v) = b))
      [] t = T_VISIBLE_STRING -> v.k = "text" /\ v.cps = b
      [] t = T_UNICODE_STRING -> v.k = "text" /\ v.cps = UnUtf16(b)
      [] OTHER -> v.k = "bytes" /\ v.b = b
=============================================================================
