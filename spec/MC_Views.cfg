SPECIFICATION Spec
INVARIANT ReadBack
INVARIANT OtherBitsKept
INVARIANT MatchesArithmetic
INVARIANT PhysFixpoint
INVARIANT PhysUnique
CHECK_DEADLOCK FALSE
