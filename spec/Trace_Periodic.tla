--------------------------- MODULE Trace_Periodic ---------------------------
(* C17 trace specification: after every API call the set of live cyclic tasks of the bus is       *)
(* logged; it must be exactly one task per running producer with the producer's current id,       *)
(* payload, period and remote flag.                                                               *)
EXTENDS Periodic, Json, IOUtils
QInit(t) == [PInit(t.pdoid, t.nid) EXCEPT !.pdoData = t.pdodata]
QShow(st) == st
Bad(st, why) == [ok |-> FALSE, why |-> why, st |-> st]
Good(st) == [ok |-> TRUE, why |-> "", st |-> st]
\* producers whose frames would share a CAN id (a PDO moved onto the SYNC or heartbeat id) are left out
DistinctIds(pr) == \A a, b \in Expected(pr) : a # b => a.id # b.id
Fin(st, e, new) ==
    IF e.overlap # 0 /\ DistinctIds(st) /\ DistinctIds(new)
      THEN Bad(st, "a producer started a cyclic task while its previous one was still running (two tasks at that moment, after " \o e.e \o ")")
    ELSE IF ~LiveOk(new, e.live)
      THEN Bad(st, "live cyclic tasks are not exactly one per running producer with its current id / payload / period (after " \o e.e \o ")")
      ELSE Good(new)
StartLike(st, e, r) ==
    IF r.ok THEN (IF e.raised THEN Bad(st, "start raised although a period is known") ELSE Fin(st, e, r.pr))
    ELSE (IF ~e.raised THEN Bad(st, "start without any period did not raise") ELSE Fin(st, e, r.pr))
QStep(st, e, t) ==
    IF e.raised /\ e.e \notin {"sync_start", "pdo_start"} THEN Bad(st, "call raised: " \o e.e)
    ELSE
    CASE e.e = "sync_start" -> StartLike(st, e, SyncStart(st, e.period_us))
      [] e.e = "sync_stop" -> Fin(st, e, SyncStop(st))
      [] e.e = "pdo_start" -> StartLike(st, e, PdoStart(st, e.period_us))
      [] e.e = "pdo_stop" -> Fin(st, e, PdoStop(st))
      [] e.e = "sync_cob" -> Fin(st, e, SyncSetCob(st, e.id))
      [] e.e = "pdo_echo" -> Fin(st, e, IF e.skipped THEN st ELSE PdoEcho(st, e.d, e.ts))
      [] e.e = "pdo_cob" -> Fin(st, e, PdoSetCob(st, e.id))
      [] e.e = "pdo_set" -> Fin(st, e, PdoSetData(st, e.d))
      [] e.e = "hb_start" -> Fin(st, e, HbStart(st, e.ms))
      [] e.e = "hb_stop" -> Fin(st, e, HbStop(st))
      [] e.e = "write1017" -> Fin(st, e, Write1017(st, e.ms))
      [] e.e = "write1017_bad" -> IF ~e.refused THEN Bad(st, "a download of the wrong length to the heartbeat time was not refused")
                                  ELSE Fin(st, e, st)
      [] e.e = "nmt" -> Fin(st, e, NmtTo(st, e.state, e.api))
      [] e.e = "ng_start" -> Fin(st, e, NgStart(st, e.period_us))
      [] e.e = "ng_stop" -> Fin(st, e, NgStop(st))
      [] e.e = "disconnect" -> Fin(st, e, Disconnect(st))
      [] OTHER -> Bad(st, "unknown event")
TraceFile == JsonDeserialize(IOEnv.TRACE_FILE)
VARIABLES tid, l, st
INSTANCE TraceBase WITH TInit <- QInit, TStep <- QStep, TShow <- QShow, Traces <- TraceFile
=============================================================================
