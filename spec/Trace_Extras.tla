---------------------------- MODULE Trace_Extras ----------------------------
EXTENDS Extras, Json, IOUtils
XInit(t) == [n |-> 0]
XShow(st) == st
Bad(st, why) == [ok |-> FALSE, why |-> why, st |-> st]
Good(st) == [ok |-> TRUE, why |-> "", st |-> [n |-> st.n + 1]]
XStep(st, e, t) ==
    CASE e.e = "sync" -> IF e.frames = <<SyncFrame(e.count)>> THEN Good(st) ELSE Bad(st, "SYNC frame is not <<counter>> / empty on 0x80")
      [] e.e = "time" -> IF e.frames = <<TimeFrame(e.ms % 65536, e.ms \div 65536, e.days)>> THEN Good(st)
                         ELSE Bad(st, "TIME frame is not <<ms after midnight (LE32), days (LE16)>> on 0x100")
      [] e.e = "search" -> IF e.frames = SearchFrames(e.limit) THEN Good(st) ELSE Bad(st, "node search did not send one 0x1000:00 upload request per node id in order")
      [] e.e = "store" -> IF e.reqs = <<StoreReq(e.sub)>> THEN Good(st) ELSE Bad(st, "store parameters is not an expedited download of 'save' to 0x1010:sub")
      [] e.e = "restore" -> IF e.reqs = <<RestoreReq(e.sub)>> THEN Good(st) ELSE Bad(st, "restore parameters is not an expedited download of 'load' to 0x1011:sub")
      [] e.e = "identify" -> IF e.frames = IdentifyFrames(e.ids) THEN Good(st) ELSE Bad(st, "LSS identify remote slave frames wrong")
      [] e.e = "identify_nc" -> IF e.frames = <<IdentifyNonConfigured>> THEN Good(st) ELSE Bad(st, "LSS identify non-configured remote slave frame wrong")
      [] e.e = "pdolookup" -> IF e.found = e.expect THEN Good(st) ELSE Bad(st, "PDO lookup (by number / record index / variable name) reached the wrong map or variable")
      [] e.e = "arrview" ->
           IF e.len # ArrLen(e.cnt) THEN Bad(st, "length of a remote array is not the number of entries the device reports")
           ELSE IF e.iter # ArrIter(e.cnt) THEN Bad(st, "iterating a remote array does not yield sub-indexes 1..n")
           ELSE IF \E i \in 1..Len(e.contains) : e.contains[i][2] # ArrContains(e.cnt, e.contains[i][1] - 1)
             THEN Bad(st, "membership in a remote array is not 0 <= sub-index <= n")
           ELSE IF \E i \in 1..Len(e.reads) : e.reads[i] # <<<<8448, 0>>>>
             THEN Bad(st, "each question about a remote array reads 0x2100:00 from the device exactly once")
           ELSE Good(st)
      [] e.e = "recview" ->
           LET subs == {e.subs[j] : j \in 1..Len(e.subs)} IN
           IF e.len # RecLen(subs) THEN Bad(st, "length of a remote record counts the 'highest sub-index' entry (or misses a member)")
           ELSE IF e.iter # RecIter(subs) THEN Bad(st, "iterating a remote record does not yield its members without sub-index 0, in order")
           ELSE IF (\E i \in 1..Len(e.contains) : e.contains[i][2] # (e.contains[i][1] \in subs))
                   \/ (\E k \in 1..Len(e.names) : e.names[k][2] # (e.names[k][1] \in subs))
             THEN Bad(st, "membership in a remote record (by number / by name) is wrong")
           ELSE IF e.traffic # 0 THEN Bad(st, "questions about a remote record caused SDO traffic")
           ELSE Good(st)
      [] e.e = "importnode" ->
           IF e.first # <<ImportRequest>> THEN Bad(st, "import_from_node does not start with an upload request of 0x1021:00")
           ELSE IF e.got # ImportSucceeds(e.mode) THEN Bad(st, "import_from_node: a dictionary exactly when the device delivered a readable EDS, None otherwise")
           ELSE IF e.got /\ (e.indexes # <<4096, 8192>> \/ e.def2000 # ImportNode + 512) THEN Bad(st, "import_from_node: not the dictionary the device describes (entries / $NODEID resolved with the node's id)")
           ELSE IF e.left # ImportSubscribersLeft THEN Bad(st, "import_from_node left a subscription behind (or kept one: the code removes every handler of that id)")
           ELSE Good(st)
      [] OTHER -> Bad(st, "unknown event")
TraceFile == JsonDeserialize(IOEnv.TRACE_FILE)
VARIABLES tid, l, st
INSTANCE TraceBase WITH TInit <- XInit, TStep <- XStep, TShow <- XShow, Traces <- TraceFile
=============================================================================
