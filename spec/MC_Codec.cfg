INIT Init
NEXT Next
INVARIANT RoundTrip
INVARIANT Edges
CHECK_DEADLOCK FALSE
