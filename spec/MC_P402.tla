------------------------------- MODULE MC_P402 -------------------------------
(* Leg A for C19 (iii): the library's state-change algorithm against the CiA 402 drive, ONE ATOMIC    *)
(* STEP PER STATUSWORD READ AND PER CONTROLWORD WRITE, with the drive's automatic transitions as       *)
(* independent actions (they may fire between any two reads).  Polling uses a step budget instead of  *)
(* wall-clock time.  Fixed = TRUE models the algorithm with one statusword read per state query and   *)
(* an "already there" return in _change_state (the repaired tree); Fixed = FALSE models the original  *)
(* algorithm (state getter = one read per table entry, no early return) and is expected to violate    *)
(* NoValueError -- the check runs it as a guard that the model can see the race.                       *)
EXTENDS P402, Json
CONSTANTS Fixed, Budget

VARIABLES drv, prevcw, init, target, pc, seen, nxt, polls, outer, result, everOE, gi, autos, reads

vars == <<drv, prevcw, init, target, pc, seen, nxt, polls, outer, result, everOE, gi, autos, reads>>

\* the library's tables
Direct == {<<"READY TO SWITCH ON", "SWITCH ON DISABLED">>, <<"OPERATION ENABLED", "SWITCH ON DISABLED">>,
           <<"SWITCHED ON", "SWITCH ON DISABLED">>, <<"QUICK STOP ACTIVE", "SWITCH ON DISABLED">>,
           <<"NOT READY TO SWITCH ON", "SWITCH ON DISABLED">>, <<"START", "NOT READY TO SWITCH ON">>,
           <<"FAULT REACTION ACTIVE", "FAULT">>, <<"SWITCH ON DISABLED", "READY TO SWITCH ON">>,
           <<"SWITCHED ON", "READY TO SWITCH ON">>, <<"OPERATION ENABLED", "READY TO SWITCH ON">>,
           <<"READY TO SWITCH ON", "SWITCHED ON">>, <<"OPERATION ENABLED", "SWITCHED ON">>,
           <<"SWITCHED ON", "OPERATION ENABLED">>, <<"QUICK STOP ACTIVE", "OPERATION ENABLED">>,
           <<"OPERATION ENABLED", "QUICK STOP ACTIVE">>, <<"FAULT", "SWITCH ON DISABLED">>}
Cw(f, t) == CASE t = "SWITCH ON DISABLED" /\ f = "FAULT" -> 128
              [] t = "SWITCH ON DISABLED" -> 0
              [] t = "NOT READY TO SWITCH ON" -> 0 [] t = "FAULT" -> 0
              [] t = "READY TO SWITCH ON" -> 6 [] t = "SWITCHED ON" -> 7
              [] t = "OPERATION ENABLED" -> 15 [] t = "QUICK STOP ACTIVE" -> 2
Indirect(f) == CASE f = "START" -> "NOT READY TO SWITCH ON"
                 [] f \in {"FAULT", "NOT READY TO SWITCH ON", "QUICK STOP ACTIVE"} -> "SWITCH ON DISABLED"
                 [] f = "SWITCH ON DISABLED" -> "READY TO SWITCH ON" [] f = "READY TO SWITCH ON" -> "SWITCHED ON"
                 [] f = "SWITCHED ON" -> "OPERATION ENABLED" [] f = "FAULT REACTION ACTIVE" -> "FAULT"
                 [] OTHER -> "NONE"
MaskOrder == <<"NOT READY TO SWITCH ON", "SWITCH ON DISABLED", "READY TO SWITCH ON", "SWITCHED ON",
               "OPERATION ENABLED", "FAULT", "FAULT REACTION ACTIVE", "QUICK STOP ACTIVE">>

Init == /\ drv \in States /\ init = drv /\ target \in States /\ prevcw = 0
        /\ pc = "loop" /\ seen = "?" /\ nxt = "?" /\ polls = 0 /\ outer = 0 /\ result = "run"
        /\ everOE = (drv = "OPERATION ENABLED") /\ gi = 1 /\ autos = 0 /\ reads = 0

\* the drive's own step
Auto == /\ HasAuto(drv) /\ result = "run"
        /\ drv' = AutoNext(drv) /\ autos' = autos + 1
        /\ UNCHANGED <<prevcw, init, target, pc, seen, nxt, polls, outer, result, everOE, gi, reads>>

\* one state query = one statusword read (Fixed) or one read per table entry until a match (original)
\* Get(k) continues at program point k with the decoded state in seen
Query(k) ==
    IF Fixed
      THEN /\ seen' = drv /\ pc' = k /\ gi' = 1 /\ reads' = reads + 1
      ELSE /\ reads' = reads + 1
           /\ IF MaskOrder[gi] = drv THEN seen' = drv /\ pc' = k /\ gi' = 1
              ELSE IF gi = 8 THEN seen' = "UNKNOWN" /\ pc' = k /\ gi' = 1
              ELSE seen' = seen /\ pc' = pc /\ gi' = gi + 1
Keep == UNCHANGED <<drv, prevcw, init, target, nxt, polls, outer, result, everOE, autos>>

Loop == pc = "loop" /\ result = "run" /\ Query("loop2") /\ Keep
Loop2 == /\ pc = "loop2" /\ result = "run"
         /\ IF seen = target THEN result' = "ok" /\ pc' = "end"
            ELSE IF target \in {"NOT READY TO SWITCH ON", "FAULT REACTION ACTIVE", "FAULT"}
              THEN result' = "refused" /\ pc' = "end"
            ELSE result' = result /\ pc' = "next"
         /\ UNCHANGED <<drv, prevcw, init, target, seen, nxt, polls, outer, everOE, gi, autos, reads>>
NextSt == pc = "next" /\ result = "run" /\ Query("next2") /\ Keep
Next2 == /\ pc = "next2" /\ result = "run"
         /\ nxt' = IF <<seen, target>> \in Direct THEN target ELSE Indirect(seen)
         /\ pc' = "chg"
         /\ UNCHANGED <<drv, prevcw, init, target, seen, polls, outer, result, everOE, gi, autos, reads>>
Chg == pc = "chg" /\ result = "run" /\ Query("chg2") /\ Keep
Chg2 == /\ pc = "chg2" /\ result = "run"
        /\ IF Fixed /\ seen = nxt
             THEN pc' = "loop" /\ UNCHANGED <<drv, prevcw, result, everOE, polls>>
           ELSE IF <<seen, nxt>> \notin Direct
             THEN result' = "ValueError" /\ pc' = "end" /\ UNCHANGED <<drv, prevcw, everOE, polls>>
           ELSE /\ drv' = DriveStep(drv, Cw(seen, nxt), prevcw) /\ prevcw' = Cw(seen, nxt)
                /\ everOE' = (everOE \/ drv' = "OPERATION ENABLED")
                /\ pc' = "poll" /\ polls' = 0 /\ result' = result
        /\ UNCHANGED <<init, target, seen, nxt, outer, gi, autos, reads>>
Poll == pc = "poll" /\ result = "run" /\ Query("poll2") /\ Keep
Poll2 == /\ pc = "poll2" /\ result = "run"
         /\ IF seen = nxt THEN pc' = "loop" /\ UNCHANGED <<polls, outer, result>>
            ELSE IF polls < Budget THEN pc' = "poll" /\ polls' = polls + 1 /\ UNCHANGED <<outer, result>>
            ELSE IF outer < Budget THEN pc' = "loop" /\ outer' = outer + 1 /\ UNCHANGED <<polls, result>>
            ELSE result' = "timeout" /\ pc' = "end" /\ UNCHANGED <<polls, outer>>
         /\ UNCHANGED <<drv, prevcw, init, target, seen, nxt, everOE, gi, autos, reads>>

Lib == Loop \/ Loop2 \/ NextSt \/ Next2 \/ Chg \/ Chg2 \/ Poll \/ Poll2
Finish == /\ pc = "end" /\ result # "run" /\ pc' = "done"
          /\ PrintT(<<"BEH", ToJson([init |-> init, target |-> target, autos |-> autos, result |-> result, final |-> drv])>>)
          /\ UNCHANGED <<drv, prevcw, init, target, seen, nxt, polls, outer, result, everOE, gi, autos, reads>>
Next == Auto \/ Lib \/ Finish
Spec == Init /\ [][Next]_vars /\ WF_vars(Lib) /\ WF_vars(Auto) /\ WF_vars(Finish)

NoValueError == result # "ValueError"
\* a time-out is legitimate only while the drive still owes an automatic transition (it is too slow)
NoTimeout == result = "timeout" => HasAuto(seen)
OeOnlyIfAllowed == (everOE /\ init # "OPERATION ENABLED") => target \in {"OPERATION ENABLED", "QUICK STOP ACTIVE"}
RefusedOk == (result = "refused") <=> (pc \in {"end", "done"} /\ target \in {"NOT READY TO SWITCH ON", "FAULT REACTION ACTIVE", "FAULT"} /\ result # "ok")
ReachedMeansThere == (result = "ok" /\ ~HasAuto(init)) => (drv = target \/ HasAuto(drv))
Reaches == <>(pc = "done")
CommandableReached == (pc = "done" /\ target \in Commandable) => (result = "ok" \/ (result = "timeout" /\ HasAuto(seen)))
=============================================================================
