------------------------------ MODULE MC_PdoCfg ------------------------------
(* Leg A for C09: for every configuration and every prior device state the safe procedure           *)
(* SaveSeq(cfg) is accepted write by write by the STRICT device, the device then holds exactly the   *)
(* configuration; procedures that skip the invalidation or write entries before zeroing the count    *)
(* are refused (sanity of the strict device).                                                        *)
EXTENDS PdoCfg
VARIABLES cfg, dev, seq, pos, refused
vars == <<cfg, dev, seq, pos, refused>>
Maps == {<<>>, <<<<8192, 0, 8>>>>, <<<<8192, 0, 8>>, <<8193, 1, 16>>>>, <<<<24640, 0, 16>>, <<8192, 0, 8>>, <<8193, 1, 16>>>>}
Cfgs == [cob : {385, 2047, 305419896}, enabled : BOOLEAN, rtr : BOOLEAN, tt : {0, 1, 240, 254, 255},
         inhibit : {-1, 100}, evt : {-1, 0}, sync : {-1}, map : Maps]
Devs == {DevInit(v, TRUE, 513, 255, c, e) : v \in BOOLEAN, c \in {0, 2}, e \in {<<<<8192, 0, 8>>, <<8192, 0, 8>>>>}}
Init == cfg \in Cfgs /\ dev \in Devs /\ seq = SaveSeq(cfg) /\ pos = 1 /\ refused = FALSE
Next == /\ pos <= Len(seq)
        /\ LET w == seq[pos]
               r == DevWrite(dev, w[1], w[2], w[3]) IN
             dev' = r.dev /\ refused' = (refused \/ ~r.ok)
        /\ pos' = pos + 1 /\ UNCHANGED <<cfg, seq>>
Spec == Init /\ [][Next]_vars
SafeOrder == ~refused
HoldsAtEnd == pos > Len(seq) => Holds(dev, cfg)
ReadBackIsCfg == pos > Len(seq) =>
    /\ CobOf(DevRead(dev, "com", 1)) = cfg.cob /\ ValidOf(DevRead(dev, "com", 1)) = cfg.enabled
    /\ RtrOf(DevRead(dev, "com", 1)) = cfg.rtr
    /\ \A k \in 1..Len(cfg.map) : MapOf(DevRead(dev, "map", k)) = cfg.map[k]
\* sanity of the strict device: an entry write on a valid PDO or with a non-zero count is refused
StrictSanity == \A d \in Devs : (d.valid \/ d.count # 0) => ~DevWrite(d, "map", 1, <<8, 0, 0, 32>>).ok
=============================================================================
