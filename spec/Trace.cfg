INIT Init
NEXT Next
CONSTRAINT Record
POSTCONDITION Accepted
CHECK_DEADLOCK FALSE
