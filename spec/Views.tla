-------------------------------- MODULE Views --------------------------------
(* Physical, described and bit-field views over a raw integer (C20).                              *)
(* The raw value is a limb integer (Codec); bit operations work on its 32-bit two's complement     *)
(* bit sequence; physical values are small rationals <<num, den>>.                                 *)
EXTENDS Codec

Abs(x) == IF x < 0 THEN -x ELSE x
\* small limb -> integer (|v| < 2^31 assumed where used)
ToInt(v) == LET w == Norm(v) IN IF w.neg THEN 0 - ULE(w.mag) ELSE ULE(w.mag)

\* r is a nearest integer of (vn/vd) / (fn/fd)   (ties: both neighbours)
NearestRaw(r, vn, vd, fn, fd) == 2 * Abs(r * fn * vd - vn * fd) <= Abs(fn) * vd
\* P = round(p * fd * K) where p is the physical value read back; exact value is r * fn * K
PhysReadOk(P, r, fn, K) == Abs(P - r * fn * K) <= 1

\* description table: sequence of <<value, name>>
DescOf(tab, r) == IF \E i \in 1..Len(tab) : tab[i][1] = r
                    THEN (CHOOSE i \in 1..Len(tab) : tab[i][1] = r) ELSE 0
ValueOf(tab, name) == IF \E i \in 1..Len(tab) : tab[i][2] = name
                        THEN (CHOOSE i \in 1..Len(tab) : tab[i][2] = name) ELSE 0

\* bit fields on the 32-bit pattern of a non-negative raw value
Bits32(v) == BitsOf(Pad(Norm(v).mag, 4))
LoBit(bs) == CHOOSE b \in bs : \A c \in bs : b <= c
\* value of the field bs (a contiguous set of bit numbers 0..31) as a bit sequence
FieldOf(bits, bs) == [k \in 1..Cardinality(bs) |-> bits[LoBit(bs) + k]]
SetField(bits, bs, vbits) == [i \in 1..32 |-> IF (i - 1) \in bs THEN vbits[i - LoBit(bs)] ELSE bits[i]]
=============================================================================
