SPECIFICATION Spec
CONSTANTS
  Lens = {1, 6, 7, 8, 14, 15, 22, 36}
  Blks = {1, 2, 3, 127}
  MaxLoss = 2
INVARIANT NormalReturnMeansCommitted
INVARIANT EndAlwaysAccepted
INVARIANT AccIsPrefix
PROPERTY Terminates
CHECK_DEADLOCK FALSE
