-------------------------- MODULE Trace_SdoServer --------------------------
(* Trace specification for the real LocalNode / SdoServer (C02, server side of C06).            *)
(* One event per request frame fed into the node:                                               *)
(*   rq  q r exc wcb chg    q: request bytes (1..8), r: response frames emitted while it was    *)
(*                          handled, exc: 1 iff the handler raised into the receive path,       *)
(*                          wcb: write-callback notifications <<idx, sub, data>> (one per       *)
(*                          registered callback), chg: entries of data_store that changed       *)
(* Header: od (entries with value sources), ncb (number of registered write callbacks).         *)
EXTENDS SdoCore, Json, IOUtils

SInit(t) == [sv |-> SrvIdle, buf |-> <<>>, store |-> [k \in 1..Len(t.od) |-> NoVal]]
SShow(st) == [sv |-> st.sv, buflen |-> Len(st.buf)]

Bad(st, why) == [ok |-> FALSE, why |-> why, st |-> st]
Good(st) == [ok |-> TRUE, why |-> "", st |-> st]

\* adopt logged store changes (only after an out-of-protocol request, where the store is free)
RECURSIVE Adopt(_, _, _)
Adopt(store, od, chg) ==
    IF chg = <<>> THEN store
    ELSE LET c == Head(chg)
             k == Find(od, c[1], c[2])
         IN Adopt(IF k > 0 THEN [store EXCEPT ![k] = c[3]] ELSE store, od, Tail(chg))

SStep(st, e, t) ==
    LET od == t.od
        j0 == SrvJudge(st.sv, st.buf, od, st.store, e.q, e.r)
        \* a frame shorter than 8 bytes that the server answers like its zero-padded 8-byte form is
        \* judged as that form (reading a short frame leniently is not forbidden; what the answer and
        \* the store must then be is what the padded frame demands)
        q8 == e.q \o [i \in 1..(8 - Len(e.q)) |-> 0]
        j8 == SrvJudge(st.sv, st.buf, od, st.store, q8, e.r)
        j == IF Len(e.q) \in 1..7 /\ j8.ok /\ ~j8.free THEN j8 ELSE j0
    IN IF e.e # "rq" THEN Bad(st, "unknown event")
       ELSE IF e.exc # 0 THEN Bad(st, "server raised into the receive path")
       ELSE IF ~j.ok THEN Bad(st, j.why)
       ELSE IF j.free
         \* an out-of-protocol frame is owed one well-formed response and nothing else: the stored
         \* values change only through an accepted download
         THEN IF e.chg # <<>> THEN Bad(st, "an out-of-protocol frame changed the stored value")
              ELSE IF e.wcb # <<>> THEN Bad(st, "an out-of-protocol frame triggered a write callback")
              ELSE Good([sv |-> j.sv, buf |-> j.buf, store |-> st.store])
       ELSE IF j.wcb = <<>>
         THEN IF e.chg # <<>> THEN Bad(st, "store changed without an accepted download")
              ELSE IF e.wcb # <<>> THEN Bad(st, "write callback invoked without an accepted download")
              ELSE Good([sv |-> j.sv, buf |-> j.buf, store |-> j.store])
       ELSE LET k == j.wcb[1]
                want == <<od[k].idx, od[k].sub, j.store[k]>>
            IN IF e.chg # <<want>> /\ ~(e.chg = <<>> /\ st.store[k] = j.store[k])
                 THEN Bad(st, "data_store does not hold exactly the transferred bytes")
               ELSE IF e.wcb # [i \in 1..t.ncb |-> want]
                 THEN Bad(st, "write callbacks not told exactly the transferred bytes once each")
               ELSE Good([sv |-> j.sv, buf |-> j.buf, store |-> j.store])

TraceFile == JsonDeserialize(IOEnv.TRACE_FILE)
VARIABLES tid, l, st
INSTANCE TraceBase WITH TInit <- SInit, TStep <- SStep, TShow <- SShow, Traces <- TraceFile
=============================================================================
