----------------------------- MODULE Trace_Homing -----------------------------
(* Trace specification for homing() / is_homed() / reset_from_fault() of BaseNode402 against a       *)
(* reference drive (SDO transport).  Trace constants: init (power state), mode0 (mode code),         *)
(* supported (BOOLEAN: homing mode advertised), delay (statusword reads until the outcome shows;     *)
(* >= 100000 = never), outcome (homing status name).  Events: hcall / cw / sw / modew / hret /       *)
(* raise / rcall / rret / qcall / qret.                                                              *)
EXTENDS Homing, Json, IOUtils
Never == 100000
HInit(t) == [drv |-> t.init, prev |-> 0, mode |-> t.mode0, run |-> "idle", reads |-> 0,
             sawOk |-> FALSE, sawErr |-> FALSE, call |-> "none", ncw |-> 0, restore |-> FALSE,
             start0 |-> t.init, mode00 |-> t.mode0]
HShow(st) == st
Bad(st, why) == [ok |-> FALSE, why |-> why, st |-> st]
Good(st) == [ok |-> TRUE, why |-> "", st |-> st]
Shown(st, t) == IF st.run = "running" /\ st.reads >= t.delay THEN t.outcome ELSE "IN PROGRESS"
HStep(st, e, t) ==
    CASE e.e \in {"hcall", "rcall", "qcall"} ->
           Good([st EXCEPT !.call = e.e, !.ncw = 0, !.restore = e.restore, !.start0 = st.drv,
                           !.mode00 = st.mode, !.sawOk = FALSE, !.sawErr = FALSE])
      [] e.e = "modew" ->
           IF e.val = 6 /\ ~t.supported THEN Bad(st, "homing mode written although the drive does not advertise it")
           ELSE IF e.val # 6 /\ ~(st.restore /\ e.val = st.mode00) THEN Bad(st, "a mode other than HOMING (or the restored previous mode) was written")
           ELSE Good([st EXCEPT !.mode = e.val])
      [] e.e = "cw" ->
           \* (ign: the drive simulator did not act on a fault reset because the cause of the fault persists)
           LET d2 == IF e.ign THEN st.drv ELSE DriveStep(st.drv, e.val, st.prev) IN
           IF d2 # e.after THEN Bad(st, "HARNESS: drive simulator reaction differs from the CiA 402 state machine")
           ELSE IF st.call = "qcall" THEN Bad(st, "is_homed() wrote a controlword")
           ELSE IF StartEdge(e.val, st.prev) /\ ~StartAccepted(st.drv, st.mode, e.val, st.prev)
             THEN Bad(st, "homing start command given while the drive is not enabled in homing mode")
           ELSE Good([st EXCEPT !.drv = d2, !.prev = e.val, !.ncw = st.ncw + 1,
                                !.run = IF StartAccepted(st.drv, st.mode, e.val, st.prev) THEN "running" ELSE st.run,
                                !.reads = IF StartAccepted(st.drv, st.mode, e.val, st.prev) THEN 0 ELSE st.reads])
      [] e.e = "sw" ->
           LET shown == Shown(st, t)
               want == BaseSw(st.drv) + HBits(shown)
           IN IF e.val # want THEN Bad(st, "HARNESS: statusword of the drive simulator differs from the model")
              ELSE Good([st EXCEPT !.reads = st.reads + 1,
                                   !.sawOk = st.sawOk \/ HSuccess(shown), !.sawErr = st.sawErr \/ HError(shown)])
      [] e.e = "hret" ->
           IF st.call # "hcall" THEN Bad(st, "HARNESS: return without call")
           ELSE IF e.result /\ ~st.sawOk THEN Bad(st, "homing() reported success although the drive never showed a successful homing status")
           ELSE IF ~e.result /\ st.sawOk /\ ~st.sawErr THEN Bad(st, "homing() reported failure although the drive showed success and no error")
           ELSE IF ~e.result /\ ~st.sawOk /\ ~st.sawErr /\ t.delay < Never /\ st.run = "running"
             THEN Bad(st, "homing() gave up although the drive was about to finish and no time-out was due")
           ELSE IF st.run # "running" /\ t.supported THEN Bad(st, "homing() returned without ever starting the homing run")
           ELSE IF st.restore /\ st.mode # st.mode00 /\ t.supported THEN Bad(st, "previous operation mode not restored")
           ELSE Good([st EXCEPT !.call = "none"])
      [] e.e = "qret" ->
           \* is_homed(): switch to homing mode, read the status once, report success bits
           IF e.result # HSuccess(Shown(st, t)) THEN Bad(st, "is_homed() does not report the homing status bits of the statusword")
           ELSE IF st.restore /\ st.mode # st.mode00 THEN Bad(st, "previous operation mode not restored")
           ELSE IF ~st.restore /\ st.mode # 6 THEN Bad(st, "is_homed() did not leave the drive in homing mode")
           ELSE Good([st EXCEPT !.call = "none"])
      [] e.e = "rret" ->
           IF st.start0 = "FAULT"
             THEN IF st.drv = "OPERATION ENABLED" THEN Good([st EXCEPT !.call = "none"])
                  ELSE Bad(st, "reset_from_fault() did not bring the faulted drive to OPERATION ENABLED")
             ELSE IF st.ncw # 0 THEN Bad(st, "reset_from_fault() wrote a controlword although the drive is not in FAULT")
                  ELSE Good([st EXCEPT !.call = "none"])
      [] e.e = "raise" ->
           IF st.call \in {"hcall", "qcall"} /\ ~t.supported /\ e.cls = "TypeError" THEN Good([st EXCEPT !.call = "none"])
           ELSE Bad(st, "call raised " \o e.cls)
      [] OTHER -> Bad(st, "unknown event")
TraceFile == JsonDeserialize(IOEnv.TRACE_FILE)
VARIABLES tid, l, st
INSTANCE TraceBase WITH TInit <- HInit, TStep <- HStep, TShow <- HShow, Traces <- TraceFile
=============================================================================
