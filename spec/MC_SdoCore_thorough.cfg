SPECIFICATION Spec
CONSTANTS
  MaxLen = 30
  Transfers = 2
INVARIANT NeverConfused
INVARIANT DlExact
INVARIANT UlLength
INVARIANT ServerIdleAtEnd
INVARIANT AbortIsRefusal
INVARIANT RefusedAlways
INVARIANT ToggleFromZero
INVARIANT Bounded
PROPERTY StoreOnlyOnCommit
CHECK_DEADLOCK FALSE
