SPECIFICATION Spec
CONSTANTS
  Cobs = {385, 641}
  Depth = 4
INVARIANT OnlySubscribedMapChanges
INVARIANT PeriodIsDelta
CHECK_DEADLOCK FALSE
