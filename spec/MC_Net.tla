-------------------------------- MODULE MC_Net --------------------------------
(* Leg A for C10: all histories of subscribe / unsubscribe / add / replace / remove up to a      *)
(* depth over a small pool; the reference multimap never holds a callback twice, never holds a   *)
(* handler of a node generation that was removed or replaced, keeps the LSS handler, and the     *)
(* handlers of one node keep their registration order on the shared NMT id 0.                    *)
EXTENDS Net, Json

CONSTANTS Ids, Cbs, NodeIds, MaxGen, Depth

VARIABLES subs, nodes, gen, depth, dead, hist
vars == <<subs, nodes, gen, depth, dead, hist>>
View == <<subs, nodes, gen, depth, dead>>

UserCb(k) == <<0, k, 0, 0>>
Init == subs = (LssId :> <<LssCb>>) /\ nodes = [i \in {} |-> 0] /\ gen = 0 /\ depth = 0 /\ dead = {} /\ hist = <<>>

Step(s, n, d) == subs' = s /\ nodes' = n /\ depth' = depth + 1 /\ dead' = d
H(op, id, k, nid, kind) == hist' = Append(hist, [op |-> op, id |-> id, k |-> k, nid |-> nid, kind |-> kind])

DoSub == \E id \in Ids, k \in Cbs : Step(Subscribe(subs, id, UserCb(k)), nodes, dead) /\ gen' = gen /\ H("sub", id, k, 0, "")
DoUnsub == \E id \in Ids, k \in Cbs : Step(Unsubscribe(subs, id, UserCb(k)), nodes, dead) /\ gen' = gen /\ H("unsub", id, k, 0, "")
DoUnsubAll == \E id \in Ids :
                 /\ \A i \in 1..Len(SubsOf(subs, id)) : SubsOf(subs, id)[i][1] = 0   \* user callbacks only
                 /\ Step(UnsubscribeAll(subs, id), nodes, dead) /\ gen' = gen /\ H("unsuball", id, 0, 0, "")
DoAdd == /\ gen < MaxGen
         /\ \E nid \in NodeIds, kind \in {"remote", "local"} :
              LET r == AddNode(subs, nodes, kind, nid, gen + 1) IN
                Step(r.subs, r.nodes, IF nid \in DOMAIN nodes THEN dead \cup {<<nid, nodes[nid].gen>>} ELSE dead)
                /\ H("add", 0, 0, nid, kind)
         /\ gen' = gen + 1
DoAddSdo == \E nid \in DOMAIN nodes :
              /\ nodes[nid].kind = "remote" /\ Len(nodes[nid].extra) < 1
              /\ LET r == AddSdo(subs, nodes, nid, 1440 + nid) IN
                   Step(r.subs, r.nodes, dead) /\ gen' = gen /\ H("addsdo", 1440 + nid, 0, nid, "")
DoRemove == \E nid \in DOMAIN nodes :
              LET r == RemoveNode(subs, nodes, nid) IN
                Step(r.subs, r.nodes, dead \cup {<<nid, nodes[nid].gen>>}) /\ gen' = gen /\ H("remove", 0, 0, nid, "")

Next == depth < Depth /\ (DoSub \/ DoUnsub \/ DoUnsubAll \/ DoAdd \/ DoAddSdo \/ DoRemove)
Spec == Init /\ [][Next]_vars

AllCbs == UNION {{subs[id][i] : i \in 1..Len(subs[id])} : id \in DOMAIN subs}
NoDup == \A id \in DOMAIN subs : \A i, j \in 1..Len(subs[id]) : i # j => subs[id][i] # subs[id][j]
NoEmpty == \A id \in DOMAIN subs : subs[id] # <<>>
NoStaleHandler == \A cb \in AllCbs : cb[1] = 1 => <<cb[2], cb[3]>> \notin dead
LiveHandlersPresent ==
    \A nid \in DOMAIN nodes :
      LET hs == AllHandlers(nodes[nid], nid) IN
        \A i \in 1..Len(hs) : InSeq(SubsOf(subs, hs[i][1]), hs[i][2])
GenPrint == depth = Depth => PrintT(<<"BEH", ToJson(hist)>>)
LssKept == InSeq(SubsOf(subs, LssId), LssCb)
=============================================================================
