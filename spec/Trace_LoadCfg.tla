---------------------------- MODULE Trace_LoadCfg ----------------------------
(* RemoteNode.load_configuration() (growth beyond the listed properties).                           *)
(* Trace constants: od = sequence of [idx, sub, pdo (BOOLEAN: 0x1400 <= idx < 0x1C00), writable,     *)
(* hasval, bytes] in object-dictionary order (ascending index, members in sub-index order).          *)
(* Events: w [idx, sub, d, react] (one SDO download reaching the device; react = "ok" | "ro" =       *)
(* abort 0x06010002 | "abort" = any other abort code | "timeout"), ret, raise [cls, code].            *)
(* Rule: first the PDO configuration (indexes 0x1400..0x1BFF, judged by C09), then every writable    *)
(* entry with a configured value outside that range, once, in order, with the encoded value; a       *)
(* "read-only" abort and a communication error are tolerated, any other abort ends the call with     *)
(* that abort.                                                                                       *)
EXTENDS Naturals, Sequences, FiniteSets, TLC, Json, IOUtils, SequencesExt
Wanted(od) == SelectSeq(od, LAMBDA o : ~o.pdo /\ o.writable /\ o.hasval)
LInit(t) == [k |-> 0, dead |-> FALSE, code |-> 0, pdoDone |-> FALSE]
LShow(st) == st
Bad(st, why) == [ok |-> FALSE, why |-> why, st |-> st]
Good(st) == [ok |-> TRUE, why |-> "", st |-> st]
LStep(st, e, t) ==
    LET want == Wanted(t.od) IN
    CASE e.e = "w" ->
           IF st.dead THEN Bad(st, "a write followed the abort that should have ended the call")
           ELSE IF e.idx >= 5120 /\ e.idx < 7168
             THEN IF st.pdoDone THEN Bad(st, "PDO configuration written after application objects")
                  ELSE Good(st)
           ELSE IF st.k >= Len(want) THEN Bad(st, "an entry without configured value, a read-only entry or a repeated entry was written")
           ELSE LET o == want[st.k + 1] IN
                IF <<e.idx, e.sub, e.d>> # <<o.idx, o.sub, o.bytes>>
                  THEN Bad(st, "wrong entry, order or encoded value written")
                  ELSE Good([st EXCEPT !.k = st.k + 1, !.pdoDone = TRUE,
                                       !.dead = (e.react = "abort"), !.code = e.code])
      [] e.e = "ret" ->
           IF st.dead THEN Bad(st, "an abort other than 'read-only' was swallowed")
           ELSE IF st.k # Len(want) THEN Bad(st, "returned before every configured entry was written")
           ELSE Good(st)
      [] e.e = "raise" ->
           IF st.dead /\ e.cls = "SdoAbortedError" /\ e.code = st.code THEN Good(st)
           ELSE Bad(st, "call raised " \o e.cls)
      [] OTHER -> Bad(st, "unknown event")
TraceFile == JsonDeserialize(IOEnv.TRACE_FILE)
VARIABLES tid, l, st
INSTANCE TraceBase WITH TInit <- LInit, TStep <- LStep, TShow <- LShow, Traces <- TraceFile
=============================================================================
