SPECIFICATION Spec
CONSTANTS
  Nid = 5
  Other = 9
  Depth = 12
  Codes = {1, 2, 80, 96, 128, 129, 130, 0, 3, 255}
  HbBytes = {0, 4, 5, 127, 128, 133, 255, 80, 96, 1, 77}
INVARIANT SlaveDefined
INVARIANT MasterDefinedUnlessOddHeartbeat
INVARIANT AddressedAgree
INVARIANT GenPrint
PROPERTY ForeignChangesNothing
PROPERTY BootupIsPreop

CHECK_DEADLOCK FALSE
