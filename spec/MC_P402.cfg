SPECIFICATION Spec
CONSTANTS
  Fixed = TRUE
  Budget = 3
INVARIANT NoValueError
INVARIANT NoTimeout
INVARIANT OeOnlyIfAllowed
INVARIANT CommandableReached
PROPERTY Reaches
CHECK_DEADLOCK FALSE
