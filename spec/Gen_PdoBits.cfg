SPECIFICATION Spec
CONSTANTS
  MaxFields = 8
  MaxBits = 64
  Full = TRUE
INVARIANT GenPrint
CHECK_DEADLOCK FALSE
