----------------------------- MODULE MC_PdoBits -----------------------------
(* Leg A for C05: sanity of the reference over a reduced family: all layouts of up to three        *)
(* sub-byte fields of 8-bit objects (signed / unsigned / BOOLEAN) in a two-byte frame, all frame   *)
(* contents reachable by writes, all values: read-back and only-mapped-bits-change.  Also          *)
(* generates layouts over the full type family for leg B (Gen cfg, simulation).                    *)
EXTENDS PdoBits, Json
CONSTANTS MaxFields, MaxBits, Full
VARIABLES lay, frame, phase
vars == <<lay, frame, phase>>
Small == {<<T_BOOLEAN, 1>>} \cup {<<T_UNSIGNED8, n>> : n \in 1..4} \cup {<<T_INTEGER8, n>> : n \in 1..4}
FullFamily == {<<T_BOOLEAN, 1>>} \cup {<<T_UNSIGNED8, n>> : n \in 1..8} \cup {<<T_INTEGER8, n>> : n \in 1..8}
              \cup {<<t, 8 * WidthOf(t)>> : t \in (IntTypes \cup RealTypes) \ {T_UNSIGNED8, T_INTEGER8}}
Family == IF Full THEN FullFamily ELSE Small
Init == lay = <<>> /\ frame = <<>> /\ phase = "build"
AddField == /\ phase = "build" /\ Len(lay) < MaxFields
            /\ \E f \in Family : TotalBits(Append(lay, f)) <= MaxBits /\ lay' = Append(lay, f)
            /\ UNCHANGED <<frame, phase>>
Seal == /\ phase = "build" /\ lay # <<>> /\ phase' = "use" /\ frame' = Zeros(FrameLen(lay))
        /\ UNCHANGED lay
ValuesOf(f) == IF f[1] = T_BOOLEAN THEN {<<0>>, <<1>>}
               ELSE {<<b>> : b \in {0, 1, 2 ^ (f[2] - 1), 2 ^ f[2] - 1, 255, 170, 85}}   \* encodings
Write == /\ phase = "use" /\ ~Full
         /\ \E i \in 1..Len(lay) : \E vb \in ValuesOf(lay[i]) :
              LET fld == Field(lay[i][1], Offsets(lay)[i], lay[i][2]) IN
                frame' = WriteFrame(frame, fld, vb)
         /\ UNCHANGED <<lay, phase>>
Next == AddField \/ Seal \/ Write
Spec == Init /\ [][Next]_vars
Fl(i) == Field(lay[i][1], Offsets(lay)[i], lay[i][2])
\* every write step: the field reads back the value's low bits (sign / zero extended), every bit
\* outside the field and the frame length are unchanged
WriteOk == [][(phase = "use" /\ phase' = "use") =>
                \E i \in 1..Len(lay) : \E vb \in ValuesOf(lay[i]) :
                  LET fld == Fl(i)
                      got == BitsOf(ReadBytes(frame', fld))
                      want == BitsOf(vb)
                      old == BitsOf(frame)
                      new == BitsOf(frame')
                  IN /\ frame' = WriteFrame(frame, fld, vb)
                     /\ \A k \in 1..fld.len : got[k] = want[k]
                     /\ \A k \in (fld.len + 1)..fld.tlen : got[k] = (IF fld.signed THEN want[fld.len] ELSE 0)
                     /\ Len(old) = Len(new)
                     /\ \A k \in 1..Len(new) : (k <= fld.off \/ k > fld.off + fld.len) => new[k] = old[k]]_vars
FrameLength == phase = "use" => Len(frame) = FrameLen(lay)
GenPrint == (phase = "use" /\ Full) => PrintT(<<"BEH", ToJson(lay)>>)
=============================================================================
