SPECIFICATION Spec
CONSTANTS
  Ids = {0, 1410, 291}
  Cbs = {1, 2}
  NodeIds = {2, 3}
  MaxGen = 6
  Depth = 14
INVARIANT NoDup
INVARIANT NoEmpty
INVARIANT NoStaleHandler
INVARIANT LiveHandlersPresent
INVARIANT LssKept
INVARIANT GenPrint
CHECK_DEADLOCK FALSE
