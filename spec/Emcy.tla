-------------------------------- MODULE Emcy --------------------------------
(* EMCY consumer / producer (C16): log, active list, callbacks, waiting, framing, error classes. *)
EXTENDS CanBase

Entry(d, ts) == [code |-> d[1] + 256 * d[2], reg |-> d[3], data |-> SubSeq(d, 4, 8), ts |-> ts]
IsReset(code) == code \div 256 = 0
OnEmcy(log, active, e) == [log |-> Append(log, e),
                           active |-> IF IsReset(e.code) THEN <<>> ELSE Append(active, e)]
ProducerFrame(code, reg, data) == <<code % 256, code \div 256, reg>> \o Pad(data, 5)

\* CiA 301 error classes
Desc(code) ==
    LET hi == code \div 256
        top == code \div 4096
    IN CASE hi = 0 -> "Error Reset / No Error"
         [] hi = 16 -> "Generic Error"
         [] top = 2 -> "Current"
         [] top = 3 -> "Voltage"
         [] top = 4 -> "Temperature"
         [] hi = 80 -> "Device Hardware"
         [] top = 6 -> "Device Software"
         [] hi = 112 -> "Additional Modules"
         [] top = 8 -> "Monitoring"
         [] hi = 144 -> "External Error"
         [] hi = 240 -> "Additional Functions"
         [] hi = 255 -> "Device Specific"
         [] OTHER -> ""

\* entries since (excluding) the last error-reset entry
RECURSIVE SinceReset(_)
SinceReset(log) == IF log = <<>> THEN <<>>
                   ELSE IF IsReset(log[Len(log)].code) THEN <<>>
                   ELSE Append(SinceReset(SubSeq(log, 1, Len(log) - 1)), log[Len(log)])
=============================================================================
